"""Stage plans per property, and python-level stages that wrap other tools."""
import json, os, subprocess, time, re, hashlib, shutil


class Inconclusive(Exception):
    pass


def vh(name, stage, profile, **kw):
    d = dict(name=name, kind="vh", stage=stage, profile=profile)
    d.update(kw)
    return d


def both(stage, **kw):
    """release build for the verdict users see, checked build so that the crate's own
    debug assertions and the compiler's overflow checks monitor the same traffic"""
    return [vh(f"{stage}-release", stage, "release", **kw), vh(f"{stage}-checked", stage, "checked", **kw)]


ASSUME_REF = [
    "the spec-literal reference model (harness/refimpl) is FIPS 204; it is re-validated against the 180 ACVP vectors (copies under fixtures/acvp) and its own schoolbook multiply on every run, and a failure makes the run inconclusive",
    "SHAKE128/256 and SHA-256/512 from the sha3/sha2 crates are correct (shared with the crate under test)",
]

PLANS = {
    "C01": dict(level="exploration", stages=both("c01"), assumptions=ASSUME_REF),
    "C02": dict(level="exploration", stages=both("c02"), assumptions=ASSUME_REF),
    "C03": dict(level="exploration", stages=both("c03"), assumptions=ASSUME_REF),
    "C04": dict(level="exploration", stages=both("c04"), assumptions=ASSUME_REF),
    "C05": dict(level="exploration", stages=both("c05"), assumptions=ASSUME_REF),
    "C06": dict(level="exploration", stages=both("c06"), assumptions=ASSUME_REF),
    "C07": dict(level="exploration", stages=both("c07"), assumptions=ASSUME_REF),
    "C08": dict(level="exploration", stages=both("c08"), assumptions=ASSUME_REF),
    "C09": dict(level="exploration", stages=both("c09"), assumptions=ASSUME_REF),
    "C10": dict(level="exploration", stages=both("c10"),
                assumptions=["the harness's own bit-field writer (gen::set_eta_field) addresses the FIPS 204 skEncode layout; it is cross-checked against the reference skDecode in-range predicate"]),
    "C11": dict(level="exploration", stages=both("c11"), assumptions=ASSUME_REF),
    "C12": dict(level="fault_enumeration", stages=both("c12") + [dict(name="c12-strace", kind="py", func="c12_strace", tiers=["thorough"])],
                assumptions=["rand_core 0.6 RngCore/CryptoRng is the only randomness interface of the crate", "OsRng draws through the getrandom syscall on this platform (checked by the strace stage)"]),
    "C13": dict(level="exploration",
                stages=[vh("c13-checked", "c13", "checked", abort_is_violation=True),
                        vh("c13-release", "c13", "release", abort_is_violation=True),
                        vh("c13f4-checked", "c13f4", "checked", abort_is_violation=True, timeout=dict(quick=900, thorough=5400))],
                assumptions=["panics are observed through catch_unwind + panic hook in a build with debug-assertions and overflow-checks on (profile 'checked', opt-level 2); aborts through the stage's exit signal",
                             "a watchdog kill (hang) is reported as inconclusive; termination of the signing loop is decided by the logical bound (16-bit counter overflow check), not by wall-clock"]),
    "C15": dict(level="exploration", stages=both("c15"),
                assumptions=["big-integer definitions in harness/vh/src/props/c15.rs (cross-checked against the reference model at start-up) are the FIPS 204 definitions of the auxiliary functions",
                             "'documented input range' = the debug_assert preconditions / doc comments in helpers.rs"]),
    "C16": dict(level="exploration", stages=both("c16") + [dict(name="c16-miri", kind="py", func="c16_miri", tiers=["thorough"])],
                assumptions=["no padding bytes in the key structs (all fields are byte or i32 arrays; Miri would flag a read of padding)",
                             "copies left on the stack by moves that happened before the drop are out of reach"]),
    "C18": dict(level="exploration", stages=both("c18"),
                assumptions=ASSUME_REF + ["the schoolbook negacyclic product in i128 (refimpl::schoolbook_mul) is the definition of multiplication in Z_q[X]/(X^256+1)",
                                          "no adversarial witness is constructible for ML-DSA-44 with this method (DESIGN 3.2); for 44 the check relies on extremal patterns"]),
}


def c12_strace(a):
    """syscall-level monitor: exactly one getrandom(…, 32, 0) per OS-RNG API call"""
    exe = a["build"]("release")
    if exe is None:
        raise Inconclusive("build failed")
    if not shutil.which("strace"):
        raise Inconclusive("strace not available")
    calls = 6
    out = os.path.join(a["work"], "c12-strace.txt")
    rep = os.path.join(a["work"], "c12-strace-report.json")
    t0 = time.time()
    r = subprocess.run(["strace", "-f", "-e", "trace=getrandom", "-o", out, exe, "c12os", "--opt", f"calls={calls}", "--out", rep],
                       stdout=subprocess.PIPE, stderr=subprocess.PIPE, text=True, timeout=600)
    if not os.path.exists(rep) or not os.path.exists(out):
        raise Inconclusive(f"strace could not run the workload: {r.stderr[-300:]}")
    with open(rep) as f:
        vr = json.load(f)
    os_calls = vr.get("counters", {}).get("os_calls", 0)
    n32 = 0
    other = []
    for line in open(out):
        m = re.search(r"getrandom\((.*?), (\d+), ([A-Z_|0-9x]+)\)\s+= (-?\d+)", line)
        if not m:
            continue
        ln, ret = int(m.group(2)), int(m.group(4))
        if ln == 32 and ret == 32:
            n32 += 1
        else:
            other.append((ln, ret))
    violations = []
    if os_calls == 0:
        raise Inconclusive("no OS-RNG calls were made")
    if n32 != os_calls:
        violations.append(dict(signature=f"C12|getrandom-count|calls={os_calls}|syscalls32={n32}",
                               detail=f"{os_calls} OS-RNG API calls made {n32} getrandom(32) syscalls (expected one fresh 32-byte draw per call)",
                               replay=dict(kind="c12-strace", calls=calls)))
    return dict(property_id="C12", stage="c12-strace", build="release", tier=a["tier"], seed=a["seed"],
                rule="strace -e trace=getrandom around a loop of try_keygen / KG::try_keygen / try_sign / try_hash_sign calls",
                exhaustive=False, evaluations=os_calls, distinct_nontrivial=n32,
                samples=[dict(os_rng_api_calls=os_calls, getrandom_32_byte_syscalls=n32, other_getrandom_calls=other[:6])],
                counters=dict(os_rng_api_calls=os_calls, getrandom32=n32), violations=violations, inconclusive=[], wall_s=time.time() - t0)


# ---------------------------------------------------------------------------------------------
# C14: SanitizerCoverage trace equality, valgrind secret taint, callgrind profiles
# ---------------------------------------------------------------------------------------------

# The crate's own Cargo profiles ([profile.dev] / [profile.release] / [profile.bench] in /repo/Cargo.toml),
# reproduced on the harness' release profile through cargo's environment overrides. "harness" is the
# harness workspace's own release profile (opt-level 3, 16 codegen units, no LTO).
CRATE_PROFILES = {
    "dev": dict(OPT_LEVEL="1", LTO="false", CODEGEN_UNITS="16"),
    "release": dict(OPT_LEVEL="s", LTO="true", CODEGEN_UNITS="1"),
    "bench": dict(OPT_LEVEL="3", LTO="true", CODEGEN_UNITS="1"),
}


def _build_ct(a, opt=None, profile=None):
    """ct driver: plain harness release build (opt=None, profile=None), sancov-instrumented build at the
    given opt-level (opt=...), or a build mirroring one of the crate's own profiles (profile=...; with
    opt='sancov' also instrumented)"""
    env = dict(a["env"])
    if profile is not None:
        sub = ("sancov-" if opt == "sancov" else "prof-") + profile
        tdir = os.path.join(a["harness"], "target", sub)
        env["CARGO_TARGET_DIR"] = tdir
        for k, v in CRATE_PROFILES[profile].items():
            env[f"CARGO_PROFILE_RELEASE_{k}"] = v
        if opt == "sancov":
            env["RUSTC_WRAPPER"] = os.path.join(a["verif"], "bin", "sancov-wrapper")
    elif opt is None:
        tdir = os.path.join(a["harness"], "target")
    else:
        tdir = os.path.join(a["harness"], "target", f"sancov-O{opt}")
        env["RUSTC_WRAPPER"] = os.path.join(a["verif"], "bin", "sancov-wrapper")
        env["CARGO_TARGET_DIR"] = tdir
        env["CARGO_PROFILE_RELEASE_OPT_LEVEL"] = opt
    t0 = time.time()
    r = subprocess.run(["cargo", "build", "--release", "-p", "ct"], cwd=a["harness"], env=env,
                       stdout=subprocess.PIPE, stderr=subprocess.STDOUT, text=True)
    if r.returncode != 0:
        raise Inconclusive(f"ct build (opt={opt}, profile={profile}) failed: {r.stdout[-1500:]}")
    a["log"](f"build ct opt={opt} profile={profile}: {time.time()-t0:.1f}s")
    return os.path.join(tdir, "release", "ct")


_FN_INDEX = {}


def _fn_index(repo):
    """source function index of <repo>/src: file name -> [(first line, fn name)]"""
    if repo in _FN_INDEX:
        return _FN_INDEX[repo]
    idx = {}
    src = os.path.join(repo, "src")
    for f in sorted(os.listdir(src)):
        if not f.endswith(".rs"):
            continue
        fns = []
        for i, l in enumerate(open(os.path.join(src, f), errors="replace"), 1):
            m = re.match(r"\s*(?:pub(?:\([a-z]+\))?\s+)?(?:const\s+)?fn\s+([A-Za-z0-9_]+)", l)
            if m:
                fns.append((i, m.group(1)))
        idx[f] = fns
    _FN_INDEX[repo] = idx
    return idx


def _src_fn(repo, fname, line):
    """'file.rs::fn' of a line of a crate source file (None for anything that is not crate source)"""
    fns = _fn_index(repo).get(fname)
    if fns is None or line <= 0:
        return None
    name = None
    for i, n in fns:
        if i <= line:
            name = n
    return f"{fname}::{name}"


def _taint_chains(repo, stderr):
    """memcheck reports -> {chain of crate source functions (innermost first, consecutive duplicates
    merged): count}. Frames are mapped through their debug-info file:line to the enclosing source function,
    so the chain does not depend on how the compiler inlined or named things; frames in core / the driver
    are skipped."""
    lines = stderr.splitlines()
    out = {}
    for i, l in enumerate(lines):
        if "Conditional jump or move depends on uninitialised" in l or "Use of uninitialised value" in l:
            ch = []
            for x in lines[i + 1:i + 14]:
                m = re.search(r"(?:at|by) 0x[0-9A-F]+: (.+?) \((.*?)\)\s*$", x)
                if not m:
                    break
                loc = m.group(2)
                mm = re.search(r"([A-Za-z0-9_]+\.rs):(\d+)", loc)
                if not mm or "/rustc/" in loc or "library/" in loc or m.group(1).startswith("ct::"):
                    continue
                s_ = _src_fn(repo, mm.group(1), int(mm.group(2)))
                if s_ and (not ch or ch[-1] != s_):
                    ch.append(s_)
            out[tuple(ch)] = out.get(tuple(ch), 0) + 1
    return out


ALLOWED_TAINT_CHAIN = ("helpers.rs::is_in_range", "conversion.rs::bit_unpack", "hashing.rs::expand_mask")


def _symbolise(exe, runtime_pc, anchor_runtime):
    """file:line of a runtime PC, using the runtime address of ct::pipeline_call as the anchor"""
    try:
        nm = subprocess.run(["nm", "-C", exe], capture_output=True, text=True).stdout
        static = None
        for line in nm.splitlines():
            if line.endswith("ct::pipeline_call") or " ct::pipeline_call" in line:
                static = int(line.split()[0], 16)
                break
        if static is None:
            return None
        off = int(runtime_pc, 16) - int(anchor_runtime, 16) + static
        r = subprocess.run(["addr2line", "-f", "-C", "-i", "-e", exe, hex(off)], capture_output=True, text=True)
        return " <- ".join(x.strip() for x in r.stdout.splitlines()[:6])
    except Exception as e:  # diagnosis only
        return f"(symbolisation failed: {e})"


def c14_sancov(a):
    tier, seed = a["tier"], a["seed"]
    opts = ["3"] if tier == "quick" else ["1", "s", "3"]
    n_inputs = 1280 if tier == "quick" else 20000
    variants = 64 if tier == "quick" else 2000
    shards = 16
    t0 = time.time()
    violations, samples, counters, inconclusive = [], [], {}, []
    evaluations = 0
    distinct = 0
    pre = ["setarch", "x86_64", "-R"] if shutil.which("setarch") else []
    # RNG outputs predicted (by the instrumented reference run in constant-time-test mode) to drive rare
    # events inside key generation: A*s1 + s2 wrapping past q / below 0 before reduction (~1 seed in 5000)
    extras = {}
    vhexe = a["build"]("release")
    if vhexe:
        rs = os.path.join(a["work"], "c14-rareseeds.json")
        n_scan = 24000 if tier == "quick" else 400000
        r = subprocess.run([vhexe, "rareseeds", "--seed", str(seed), "--opt", "ctest=1", "--opt", f"n={n_scan}", "--out", rs,
                            "--fixtures", os.path.join(a["verif"], "fixtures")], capture_output=True, text=True, timeout=3600)
        if os.path.exists(rs):
            rd = json.load(open(rs))
            import random as _random
            rg = _random.Random(seed)
            for st, lst in (rd.get("samples") or [{}])[0].items():
                path = os.path.join(a["work"], f"c14-extras-{st}.hex")
                with open(path, "w") as f:
                    for e in lst[:48]:
                        f.write(e["xi"] + "".join(f"{rg.randrange(256):02x}" for _ in range(32)) + "\n")
                extras[int(st)] = (path, len(lst[:48]))
    counters["rare_ctest_keygen_seeds"] = {str(k): v[1] for k, v in extras.items()}
    if tier != "quick":
        # the crate's own release and bench profiles (LTO, one codegen unit), instrumented
        opts += ["s-lto-release-profile", "3-lto-bench-profile"]
    for opt in opts:
        exe = _build_ct(a, "sancov", opt.split("-")[2]) if opt.endswith("-profile") else _build_ct(a, opt)
        # ---- kernels alone ----
        kout = os.path.join(a["work"], f"c14-kernels-O{opt}.json")
        r = subprocess.run(pre + [exe, "kernels", str(seed), str(variants), kout], capture_output=True, text=True, timeout=3600)
        if r.returncode != 0 or not os.path.exists(kout):
            raise Inconclusive(f"ct kernels failed at O{opt}: {r.stderr[-500:]}")
        kd = json.load(open(kout))
        if kd["guards"] == 0:
            raise Inconclusive("the binary is not instrumented (0 coverage guards)")
        counters[f"guards_O{opt}"] = kd["guards"]
        for k in kd["kernels"]:
            evaluations += k["variants"]
            distinct += k["distinct_inputs"]
            if k["distinct_inputs"] < 3:
                inconclusive.append(f"kernel {k['kernel']} saw fewer than 3 distinct inputs")
            if k["distinct_traces"] != 1:
                div = k.get("divergence") or {}
                where = _symbolise(exe, div.get("last_common_edge_pc", "0x0"), kd["anchor_runtime_pc"]) if div.get("last_common_edge_pc") else None
                violations.append(dict(signature=f"C14|kernel-trace-differs|{k['kernel']}|O{opt}",
                                       detail=f"kernel {k['kernel']} at opt-level {opt}: {k['distinct_traces']} distinct (edge, address) traces over {k['variants']} in-domain inputs; first divergence after {where}",
                                       replay=dict(kind="c14-kernel", kernel=k["kernel"], opt=opt, seed=seed, variants=variants, divergence=div, where=where)))
        samples.append(dict(opt_level=opt, kernel="ntt", trace=[k for k in kd["kernels"] if k["kernel"] == "ntt"][0]["trace"], variants=variants))
        # ---- whole pipeline, sharded over processes ----
        for st in (44, 65, 87):
            procs = []
            for sh in range(shards):
                lo = sh * n_inputs // shards
                hi = (sh + 1) * n_inputs // shards
                out = os.path.join(a["work"], f"c14-pipe-O{opt}-{st}-{sh}.json")
                if os.path.exists(out):
                    os.remove(out)
                cmd = pre + [exe, "pipeline", str(st), str(lo), str(hi), str(seed), out]
                if sh == 0 and st in extras:
                    cmd.append(extras[st][0])
                procs.append((subprocess.Popen(cmd, stdout=subprocess.DEVNULL, stderr=subprocess.PIPE), out))
            reps = []
            for pr, out in procs:
                try:
                    _, err = pr.communicate(timeout=7200)
                except subprocess.TimeoutExpired:
                    pr.kill()
                    raise Inconclusive("pipeline shard exceeded its watchdog")
                if pr.returncode != 0 or not os.path.exists(out):
                    raise Inconclusive(f"pipeline shard failed: {err.decode()[-300:]}")
                reps.append(json.load(open(out)))
            runs = sum(r["runs"] for r in reps)
            sigs = sum(r["distinct_signatures"] for r in reps)
            evaluations += runs
            distinct += sigs
            if sigs < runs:
                inconclusive.append(f"ML-DSA-{st} O{opt}: only {sigs} distinct signatures for {runs} RNG outputs")
            keyset = set()
            for r in reps:
                t = r["traces"][0]
                # the address hash is only comparable inside one process (stack placement depends on argv/env
                # even without ASLR); across shards compare the edge sequence and the event counts
                keyset.add((t["edge_hash"], t["edge_count"], t["mem_count"]))
                if r["distinct_traces"] != 1:
                    div = r.get("divergence") or {}
                    where = _symbolise(exe, div.get("last_common_edge_pc", "0x0"), r["anchor_runtime_pc"]) if div.get("last_common_edge_pc") else None
                    violations.append(dict(signature=f"C14|pipeline-trace-differs|ML-DSA-{st}|O{opt}",
                                           detail=f"dudect_keygen_sign_with_rng (ML-DSA-{st}, opt-level {opt}): {r['distinct_traces']} distinct traces within inputs {r['lo']}..{r['hi']}; first divergence after {where}",
                                           replay=dict(kind="c14-pipeline", set=st, opt=opt, seed=seed, lo=r["lo"], hi=r["hi"], divergence=div, where=where)))
            if len(keyset) != 1 and not any(v["signature"].startswith(f"C14|pipeline-trace-differs|ML-DSA-{st}|O{opt}") for v in violations):
                violations.append(dict(signature=f"C14|pipeline-trace-differs-across-shards|ML-DSA-{st}|O{opt}",
                                       detail=f"shards (disjoint input ranges, separate processes) disagree on the trace: {sorted(keyset)[:3]}",
                                       replay=dict(kind="c14-pipeline", set=st, opt=opt, seed=seed, lo=0, hi=n_inputs)))
            t = reps[0]["traces"][0]
            counters[f"pipeline_ML-DSA-{st}_O{opt}_edges_per_run"] = t["edge_count"]
            counters[f"pipeline_ML-DSA-{st}_O{opt}_memory_events_per_run"] = t["mem_count"]
            counters[f"pipeline_ML-DSA-{st}_O{opt}_runs"] = runs
            counters[f"pipeline_ML-DSA-{st}_O{opt}_distinct_traces"] = len(keyset) if all(r["distinct_traces"] == 1 for r in reps) else 2
            if st == 44:
                samples.append(dict(opt_level=opt, set=st, rng_output=reps[0]["traces"][0]["first_input"], trace=t, runs_with_this_trace=runs))
    return dict(property_id="C14", stage="c14-sancov", build="sancov", tier=tier, seed=seed,
                rule="", exhaustive=False, evaluations=evaluations, distinct_nontrivial=distinct, samples=samples,
                counters=counters, violations=violations, inconclusive=inconclusive, wall_s=time.time() - t0)


def c14_taint(a):
    """valgrind memcheck as a secret-taint monitor over the kernels (machine-code level)"""
    if not shutil.which("valgrind"):
        raise Inconclusive("valgrind not available")
    profiles = [None, "release"] if a["tier"] == "quick" else [None, "dev", "release", "bench"]
    t0 = time.time()
    violations, counters, samples = [], {}, []
    evals = 0

    def one(prof):
        exe = _build_ct(a, None, prof)
        out = os.path.join(a["work"], f"c14-taint-{prof or 'harness'}.json")
        if os.path.exists(out):
            os.remove(out)
        r = subprocess.run(["valgrind", "--error-exitcode=0", "--num-callers=12", exe, "taint", str(a["seed"]), out],
                           capture_output=True, text=True, timeout=3600)
        return prof, out, r
    from concurrent.futures import ThreadPoolExecutor
    with ThreadPoolExecutor(max_workers=4) as ex:
        results = list(ex.map(one, profiles))
    for prof, out, r in results:
        pname = prof or "harness"
        if not os.path.exists(out):
            raise Inconclusive(f"taint run failed ({pname}): {r.stderr[-400:]}")
        td = json.load(open(out))
        if not td.get("running_on_valgrind"):
            raise Inconclusive("client requests not honoured (not running on valgrind?)")
        cur, reports = None, {}
        lines = r.stderr.splitlines()
        for i, line in enumerate(lines):
            if line.startswith("TAINT-KERNEL-BEGIN"):
                cur = line.split()[1]
            elif line.startswith("TAINT-KERNEL-END"):
                cur = None
            elif ("Conditional jump or move depends on uninitialised" in line or "Use of uninitialised value" in line) and cur:
                frames = [re.sub(r"==\d+==\s+", "", x) for x in lines[i + 1:i + 5]]
                reports.setdefault(cur, []).append((line.split("== ")[-1], frames))
        for k, rs in reports.items():
            sig = f"C14|secret-taint|{k}" if prof is None else f"C14|secret-taint|{k}|{prof}"
            violations.append(dict(signature=sig,
                                   detail=f"memcheck ({pname} profile): {len(rs)} secret-dependent branch/address reports inside kernel {k}: {rs[0][0]} at {' | '.join(rs[0][1][:3])}",
                                   replay=dict(kind="c14-taint", kernel=k, seed=a["seed"], profile=pname)))
        n = len(td["kernels"])
        evals += n * 5
        counters[f"taint_kernels_{pname}"] = n
        counters[f"taint_reports_{pname}"] = sum(len(v) for v in reports.values())
        samples.append(dict(profile=pname, kernels_tainted=td["kernels"], variants_per_kernel=5, memcheck_reports_inside_kernels=sum(len(v) for v in reports.values())))
    return dict(property_id="C14", stage="c14-taint", build="release+memcheck", tier=a["tier"], seed=a["seed"], rule="", exhaustive=False,
                evaluations=evals, distinct_nontrivial=evals, samples=samples[:2],
                counters=counters, violations=violations, inconclusive=[], wall_s=time.time() - t0)


def _cg_parse(path):
    """callgrind profile (--dump-instr=yes --collect-jumps=yes) -> (canonical digest, totals line,
    exclusive cost per (file, line), jump statistics per (file, line)).

    Canonical form: header lines dropped, callgrind's name-compression ids "(n)" resolved to names (ids are
    handed out in order of first encounter, which depends on code run before the collection window), blocks
    keyed by (object, function) and sorted. Jump statistics (jcnd=/jump=) *inside libc* are dropped: the
    taken-counter of one size-class branch of glibc's memcpy was observed to vary (84..87 of 374) between
    inputs on the unchanged tree while every instruction count - also inside memcpy - and every call-site
    cost was identical, which a real size change cannot produce (the two paths differ by two instructions):
    an accounting artefact. Instruction costs everywhere and the jump statistics of all non-libc code stay
    in the comparison."""
    maps = {"file": {}, "fn": {}, "ob": {}}
    kind = {"fl": "file", "fi": "file", "fe": "file", "cfi": "file", "cfl": "file", "fn": "fn", "cfn": "fn", "ob": "ob", "cob": "ob"}
    blocks, cur_ob, cur_key = {}, "", None
    fl_file = cur_file = None
    addr = line = 0
    after_calls, after_jump = False, None
    cost, jumps = {}, {}
    tot = ""

    def pos(tok, prev, hexa):
        if tok == "*":
            return prev
        if tok[0] in "+-":
            d = int(tok[1:], 16 if hexa else 10)
            return prev + d if tok[0] == "+" else prev - d
        return int(tok, 16 if hexa else 10)
    for l in open(path):
        l = l.rstrip("\n")
        if l.startswith(("totals:", "summary:")) and not tot:
            tot = l.strip()
        if not l or re.match(r"^(pid|cmd|desc|creator|part|thread|# callgrind|version|positions|events|summary|totals):?", l):
            continue
        m = re.match(r"^(fl|fi|fe|cfi|cfl|fn|cfn|ob|cob)=\((\d+)\)(?: (.*))?$", l)
        if m:
            k, i, name = m.group(1), m.group(2), m.group(3)
            mp = maps[kind[k]]
            if name is not None:
                mp[i] = name
            l = f"{k}={mp.get(i, '?')}"
            if k == "fl":
                fl_file = cur_file = mp.get(i, "?")
            elif k in ("fi", "fe"):
                cur_file = mp.get(i, "?")
            if k == "ob":
                cur_ob = mp.get(i, "?")
                continue
            if k == "fn":
                cur_key = (cur_ob, mp.get(i, "?"))
                cur_file = fl_file
                blocks.setdefault(cur_key, [])
                continue
        if cur_key is None:
            continue
        in_libc = "libc" in cur_key[0]
        if not (in_libc and l.startswith(("jcnd=", "jump="))):
            blocks[cur_key].append(l)
        # line-level attribution (diagnosis / signature only)
        if m:
            continue
        if l.startswith("calls="):
            after_calls = True
            continue
        if l.startswith(("jcnd=", "jump=")):
            after_jump = l.split(" ")[0]
            continue
        t = l.split()
        if len(t) < 2:
            continue
        try:
            addr, line = pos(t[0], addr, True), pos(t[1], line, False)
        except ValueError:
            continue
        if after_jump is not None:
            if not in_libc:
                jumps.setdefault((cur_file, line), []).append(after_jump)
            after_jump = None
            if len(t) == 2:
                continue
        if after_calls:
            after_calls = False
            continue
        if len(t) >= 3:
            cost[(cur_file, line)] = cost.get((cur_file, line), 0) + int(t[2])
    body = [f"{k}\n" + "\n".join(v) + "\n" for k, v in sorted(blocks.items())]
    return hashlib.sha256("".join(body).encode()).hexdigest(), tot, cost, jumps


def c14_callgrind(a):
    """machine-level cross-check of the pipeline: per-instruction and per-branch profiles must be identical.
    On the harness build and on a build mirroring the crate's own release profile (opt-level s, LTO, one
    codegen unit); a difference is localised to the crate source functions whose per-line instruction
    counts or branch statistics differ."""
    if not shutil.which("valgrind"):
        raise Inconclusive("valgrind not available")
    repo = a.get("repo", "/repo")
    profiles = [None, "release", "bench"]
    exes = {p: _build_ct(a, None, p) for p in profiles}
    t0 = time.time()
    import random
    rnd = random.Random(a["seed"])
    n = 8 if a["tier"] == "quick" else 32
    violations, counters, samples = [], {}, []
    evals = 0
    from concurrent.futures import ThreadPoolExecutor
    for prof in profiles:
        pname = prof or "harness"
        exe = exes[prof]
        for st in (44, 65, 87):
            inputs = ["00" * 64, "ff" * 64] + ["".join(f"{rnd.randrange(256):02x}" for _ in range(64)) for _ in range(n - 2)]

            def one(i_hex):
                i, hx = i_hex
                out = os.path.join(a["work"], f"c14-cg-{pname}-{st}-{i}.out")
                r = subprocess.run(["valgrind", "--tool=callgrind", "--dump-instr=yes", "--collect-jumps=yes", "--toggle-collect=ct::pipeline_call",
                                    f"--callgrind-out-file={out}", exe, "one", str(st), hx], capture_output=True, text=True, timeout=3600)
                if r.returncode != 0 or not os.path.exists(out):
                    return None
                res = _cg_parse(out)
                os.remove(out)
                return res
            with ThreadPoolExecutor(max_workers=16) as ex:
                res = list(ex.map(one, enumerate(inputs)))
            if any(r is None for r in res):
                raise Inconclusive("callgrind run failed")
            evals += len(res)
            digests = set(r[0] for r in res)
            counters[f"callgrind_{pname}_ML-DSA-{st}_profiles"] = len(res)
            counters[f"callgrind_{pname}_ML-DSA-{st}_distinct_profiles"] = len(digests)
            samples.append(dict(profile=pname, set=st, inputs=len(res), distinct_profiles=len(digests), totals=res[0][1]))
            if len(digests) != 1:
                # localise: crate source lines whose exclusive instruction count or jump statistics differ
                lines_ = set()
                for r in res[1:]:
                    for tbl in (2, 3):
                        for k in set(res[0][tbl]) | set(r[tbl]):
                            if res[0][tbl].get(k) != r[tbl].get(k):
                                lines_.add(k)
                fns, src_lines = set(), []
                for f, ln in sorted(lines_, key=str):
                    base = os.path.basename(f or "?")
                    if f and os.path.dirname(f).rstrip("/") == os.path.join(repo, "src").rstrip("/") and ln > 0:
                        fn = _src_fn(repo, base, ln)
                        if fn:
                            fns.add(fn)
                            src_lines.append(f"{base}:{ln}")
                where = ",".join(sorted(fns)) if fns else "unlocalised"
                sig = f"C14|callgrind-profile-differs|ML-DSA-{st}" if prof is None and not fns else f"C14|callgrind-profile-differs|{pname}|ML-DSA-{st}|{where}"
                violations.append(dict(signature=sig,
                                       detail=f"{pname} profile, ML-DSA-{st}: {len(digests)} distinct per-instruction/per-branch execution profiles over {len(res)} RNG outputs; instruction totals {sorted(set(r[1] for r in res))[:4]}; differing crate source lines: {src_lines[:8]} (functions: {where})",
                                       replay=dict(kind="c14-callgrind", set=st, seed=a["seed"], profile=pname)))
    return dict(property_id="C14", stage="c14-callgrind", build="release+callgrind", tier=a["tier"], seed=a["seed"], rule="", exhaustive=False,
                evaluations=evals, distinct_nontrivial=evals, samples=samples[:3], counters=counters, violations=violations, inconclusive=[], wall_s=time.time() - t0)


PLANS["C14"] = dict(
    level="exploration",
    rule_prefix="SanitizerCoverage (edge sequence + load/store address sequence, rolling hashes and counts) of dudect_keygen_sign_with_rng for RNG outputs {0^64, FF^64, all 512 single-bit values, all 512 single-zero-bit values, seeded random, plus up to 48 RNG outputs per set whose key-generation seed is predicted by the instrumented reference (run in constant-time-test mode over 24000 / 400000 candidates) to make A*s1+s2 wrap past q or below 0 before reduction} per set, and of each secret-handling kernel alone on in-domain variants {all-min, all-max, alternating, single spike, boundary values, random}: exactly one distinct trace must be observed per function (signatures must differ across inputs). quick: opt-level 3; thorough: opt-levels 1, s, 3, the crate's release (s + LTO + 1 codegen unit) and bench (3 + LTO) profiles, and 20000 RNG outputs per set. Plus valgrind memcheck secret-taint of the kernels (inputs marked undefined; any tainted branch or address is a violation) and, in thorough, callgrind per-instruction/per-branch profile equality of the pipeline; these machine-level stages run on the harness build and on builds reproducing the crate's own dev/release/bench profiles. Non-trivial = distinct inputs (distinct signatures / distinct kernel input digests). ",
    stages=[dict(name="c14-sancov", kind="py", func="c14_sancov"),
            dict(name="c14-taint", kind="py", func="c14_taint"),
            dict(name="c14-callgrind", kind="py", func="c14_callgrind", tiers=["thorough"])],
    assumptions=["decided on optimised builds (opt-level 1, s, 3: the crate's dev, release and bench profiles); opt-level 0 is excluded (core's i32::abs / Ord::max are out-of-line branchy functions there)",
                 "LLVM-IR level observation: memcpy/memset intrinsics are not traced; backed at machine-code level by memcheck taint (kernels) and callgrind profiles (pipeline)",
                 "public-data code (use_hint, is_in_range's failure path, sample_in_ball::<false>, rejection samplers, verify) is out of scope, as in the crate's own constant-time claim"])


# ---------------------------------------------------------------------------------------------
# C17: feature matrix
# ---------------------------------------------------------------------------------------------

def _c17_configs():
    sets = ["ml-dsa-44", "ml-dsa-65", "ml-dsa-87"]
    out = []
    for mask in range(1, 8):
        chosen = [s for i, s in enumerate(sets) if mask >> i & 1]
        for rng in (False, True):
            for dd in (False, True):
                out.append(dict(sets=chosen, rng=rng, dudect=dd,
                                features=chosen + (["default-rng"] if rng else []) + (["dudect"] if dd else [])))
    return out


def c17_matrix(a):
    from concurrent.futures import ThreadPoolExecutor
    tier, seed = a["tier"], a["seed"]
    t0 = time.time()
    configs = _c17_configs()
    assert len(configs) == 28
    base = os.path.join(a["verif"], "target", "c17")
    os.makedirs(base, exist_ok=True)
    kat_dir = os.path.join(a["verif"], "kat")
    shutil.copyfile("/repo/Cargo.lock", os.path.join(kat_dir, "Cargo.lock")) if os.path.exists("/repo/Cargo.lock") else None
    env = dict(a["env"])
    workers = 4
    profiles = ["release"] + (["checked"] if tier == "thorough" else [])
    nightly = subprocess.run(["cargo", "+nightly", "--version"], capture_output=True, text=True).returncode == 0

    def run(cmd, cwd, tdir, extra_env=None, timeout=1800):
        e = dict(env)
        e["CARGO_TARGET_DIR"] = tdir
        if extra_env:
            e.update(extra_env)
        r = subprocess.run(cmd, cwd=cwd, env=e, capture_output=True, text=True, timeout=timeout)
        return r.returncode, (r.stdout + r.stderr)

    def work(w):
        res = []
        tdir = os.path.join(base, f"t{w}")
        for ci, cfg in enumerate(configs):
            if ci % workers != w:
                continue
            feats = " ".join(cfg["features"])
            rec = dict(features=feats, sets=[s[-2:] for s in cfg["sets"]], rng=cfg["rng"], dudect=cfg["dudect"])
            # stage 1: the library itself, warnings are errors through the crate's own deny(warnings)
            verb = "build" if tier == "thorough" else "check"
            rc, out = run(["cargo", verb, "--lib", "--no-default-features", "--features", feats], "/repo", tdir)
            rec["lib_ok"] = rc == 0
            if rc != 0:
                rec["lib_output"] = out[-1500:]
            # stage 2: known-answer transcript
            rec["kat"] = {}
            for prof in profiles:
                rc, out = run(["cargo", "build", "--profile", prof, "--features", feats], kat_dir, tdir)
                if rc != 0:
                    rec["kat"][prof] = dict(build_ok=False, output=out[-1500:])
                    continue
                exe = os.path.join(tdir, prof, "kat")
                r = subprocess.run([exe], capture_output=True, text=True, timeout=600)
                lines = [l.split() for l in r.stdout.splitlines()]
                rec["kat"][prof] = dict(build_ok=True, exit=r.returncode,
                                        kat={l[1]: l[2] for l in lines if l and l[0] == "KAT"},
                                        dudect={l[1]: l[2] for l in lines if l and l[0] == "DUDECT"},
                                        osrng={l[1]: l[2] for l in lines if l and l[0] == "OSRNG"},
                                        hostile={l[1]: l[2] for l in lines if l and l[0] == "HOSTILE"},
                                        stderr=r.stderr[-600:] if r.returncode != 0 else "")
            # stage 3: no_std
            if not cfg["rng"]:
                if nightly:
                    rc, out = run(["cargo", "+nightly", "build", "--lib", "-Zbuild-std=core", "--target", "x86_64-unknown-none",
                                   "--no-default-features", "--features", feats], "/repo", os.path.join(base, f"nostd{w % 2}"),
                                  extra_env={"RUSTFLAGS": "--cap-lints warn"}, timeout=3600)
                    rec["nostd_ok"] = rc == 0
                    if rc != 0:
                        rec["nostd_output"] = out[-1500:]
                else:
                    rec["nostd_ok"] = None
            else:
                rc, out = run(["cargo", "tree", "--no-default-features", "--features", feats, "-e", "normal", "-f", "{p}|{f}"], "/repo", tdir)
                stdfeat = [l.strip() for l in out.splitlines() if "|" in l and re.search(r"(^|,)std(,|$)", l.split("|", 1)[1].strip())]
                rec["tree_ok"] = rc == 0
                rec["std_features_enabled"] = stdfeat
            res.append(rec)
        return res

    with ThreadPoolExecutor(max_workers=workers) as ex:
        results = [r for rs in ex.map(work, range(workers)) for r in rs]
    results.sort(key=lambda r: r["features"])

    violations, inconclusive = [], []
    default = [r for r in results if r["features"] == "ml-dsa-44 ml-dsa-65 ml-dsa-87 default-rng"][0]
    ok_cfgs = 0
    evaluations = 0
    for prof in profiles:
        ref = default["kat"].get(prof, {})
        if not ref.get("build_ok") or ref.get("exit") != 0 or len(ref.get("kat", {})) != 3:
            violations.append(dict(signature=f"C17|default-config-kat-failed|{prof}", detail=f"the default configuration's known-answer program did not build/run: {str(ref)[:600]}",
                                   replay=dict(kind="c17", features=default["features"], profile=prof)))
    for r in results:
        good = True
        evaluations += 1
        if not r["lib_ok"]:
            good = False
            violations.append(dict(signature=f"C17|lib-build-failed|{r['features']}", detail=f"cargo build/check --lib --no-default-features --features '{r['features']}' failed: {r.get('lib_output', '')[-700:]}",
                                   replay=dict(kind="c17", features=r["features"], stage="lib")))
        for prof in profiles:
            k = r["kat"].get(prof, {})
            evaluations += 1
            if not k.get("build_ok"):
                good = False
                violations.append(dict(signature=f"C17|kat-build-failed|{r['features']}|{prof}", detail=f"a program using the crate with features '{r['features']}' does not build: {k.get('output', '')[-700:]}",
                                       replay=dict(kind="c17", features=r["features"], stage="kat", profile=prof)))
                continue
            if k.get("exit") != 0:
                good = False
                violations.append(dict(signature=f"C17|kat-run-failed|{r['features']}|{prof}", detail=f"known-answer program failed at run time (exit {k.get('exit')}): {k.get('stderr', '')}",
                                       replay=dict(kind="c17", features=r["features"], stage="kat", profile=prof)))
                continue
            ref = default["kat"].get(prof, {}).get("kat", {})
            if sorted(k["kat"].keys()) != sorted(r["sets"]):
                good = False
                violations.append(dict(signature=f"C17|kat-sets-missing|{r['features']}", detail=f"enabled sets {r['sets']} but transcripts for {sorted(k['kat'])}",
                                       replay=dict(kind="c17", features=r["features"], stage="kat", profile=prof)))
            for s, dg in k["kat"].items():
                if ref.get(s) and dg != ref[s]:
                    good = False
                    violations.append(dict(signature=f"C17|kat-differs|{r['features']}|ML-DSA-{s}|{prof}",
                                           detail=f"ML-DSA-{s} keys/signatures/decisions under features '{r['features']}' differ from the default configuration ({dg[:16]} vs {ref[s][:16]})",
                                           replay=dict(kind="c17", features=r["features"], stage="kat", profile=prof, set=s)))
            for s, v in k.get("osrng", {}).items():
                if v != "ok":
                    good = False
                    violations.append(dict(signature=f"C17|osrng-failed|{r['features']}|ML-DSA-{s}", detail="OS-RNG convenience functions failed or produced unverifiable output",
                                           replay=dict(kind="c17", features=r["features"], stage="kat", profile=prof, set=s)))
            for s, v in k.get("hostile", {}).items():
                if v != "ok":
                    good = False
                    violations.append(dict(signature=f"C17|hostile-key-signing|{r['features']}|ML-DSA-{s}|{v[:60]}",
                                           detail=f"signing with the rejection-heavy accepted key of kat/src/fixtures.rs under features '{r['features']}': {v} (the reference signs it after several hundred iterations)",
                                           replay=dict(kind="c17", features=r["features"], stage="kat", profile=prof, set=s)))
            if sorted(k.get("hostile", {}).keys()) != sorted(r["sets"]):
                good = False
                violations.append(dict(signature=f"C17|hostile-missing|{r['features']}", detail="the hostile-key fixture was not exercised for every enabled set",
                                       replay=dict(kind="c17", features=r["features"], stage="kat", profile=prof)))
            if r["rng"] and sorted(k.get("osrng", {}).keys()) != sorted(r["sets"]):
                good = False
                violations.append(dict(signature=f"C17|osrng-missing|{r['features']}", detail="default-rng enabled but the OS-RNG functions were not exercised for every set",
                                       replay=dict(kind="c17", features=r["features"], stage="kat", profile=prof)))
        if r.get("nostd_ok") is False:
            good = False
            violations.append(dict(signature=f"C17|no_std-build-failed|{r['features']}", detail=f"build for x86_64-unknown-none with -Zbuild-std=core failed (a dependency on std/alloc?): {r.get('nostd_output', '')[-700:]}",
                                   replay=dict(kind="c17", features=r["features"], stage="nostd")))
        if r.get("nostd_ok") is None and not r["rng"]:
            inconclusive.append("nightly toolchain unavailable: no_std target build skipped")
        if r["rng"]:
            if not r.get("tree_ok"):
                inconclusive.append(f"cargo tree failed for '{r['features']}'")
            elif r.get("std_features_enabled"):
                good = False
                violations.append(dict(signature=f"C17|std-feature-enabled|{r['features']}", detail=f"a dependency is built with its std feature: {r['std_features_enabled'][:3]}",
                                       replay=dict(kind="c17", features=r["features"], stage="tree")))
        ok_cfgs += 1 if good else 0
    # dudect transcripts agree among dudect configurations (release profile)
    dd = {}
    for r in results:
        for s, dg in r["kat"].get("release", {}).get("dudect", {}).items():
            dd.setdefault(s, set()).add(dg)
    for s, ds in dd.items():
        if len(ds) != 1:
            violations.append(dict(signature=f"C17|dudect-differs|ML-DSA-{s}", detail="dudect_keygen_sign_with_rng output differs between feature configurations",
                                   replay=dict(kind="c17", stage="dudect", set=s)))
    samples = [dict(features=r["features"], lib_ok=r["lib_ok"], kat=r["kat"].get("release", {}).get("kat"), nostd_ok=r.get("nostd_ok"),
                    std_features=r.get("std_features_enabled")) for r in results[:3]] + \
              [dict(default_configuration=default["features"], kat=default["kat"].get("release", {}).get("kat"))]
    return dict(property_id="C17", stage="c17-matrix", build="feature-matrix", tier=tier, seed=seed, rule="", exhaustive=True,
                evaluations=evaluations, distinct_nontrivial=ok_cfgs, samples=samples,
                counters=dict(configurations=len(results), configurations_all_ok=ok_cfgs,
                              nostd_builds=sum(1 for r in results if r.get("nostd_ok")), dudect_configs=sum(1 for r in results if r["dudect"])),
                violations=violations, inconclusive=sorted(set(inconclusive)), wall_s=time.time() - t0)


PLANS["C17"] = dict(
    level="exploration",
    rule_prefix="all 28 configurations (7 non-empty subsets of {ml-dsa-44, ml-dsa-65, ml-dsa-87} x default-rng on/off x dudect on/off): (1) cargo check/build --lib --no-default-features --features <cfg> must succeed (the crate's deny(warnings, dead_code, ...) turns any warning into an error); (2) a known-answer program built against the crate with the same features prints SHA-256 of a transcript per enabled set (keys from 4 seeds via both keygen paths, derived and round-tripped keys, signatures in 4 modes under a scripted RNG, _internal_sign, verification decisions on valid/corrupted/wrong-context inputs, long-context rejection; plus an accepted private key with extreme t0 and an input for which the reference needs 400-2500 rejection iterations: the signature must be the reference's, and the same key with one out-of-range field must be refused) which must equal the default configuration's digest for that set; default-rng configurations also run the OS-RNG functions; dudect configurations compare dudect output among themselves; (3) the 14 configurations without default-rng are built for x86_64-unknown-none with -Zbuild-std=core (no std in the sysroot), the others must not enable any dependency's std feature (cargo tree). Non-trivial = configurations for which every stage passed. ",
    stages=[dict(name="c17-matrix", kind="py", func="c17_matrix")],
    assumptions=["the default configuration is the reference for behaviour; its own correctness is C01-C04's business",
                 "nightly lints are capped to warnings in the no_std target build so that only a real std/alloc dependency can fail it"])


def c16_miri(a):
    """C16 under Miri (one process per set, in parallel)"""
    t0 = time.time()
    if subprocess.run(["cargo", "+nightly", "miri", "--version"], capture_output=True).returncode != 0:
        raise Inconclusive("miri not available")
    env = dict(a["env"])
    env["MIRIFLAGS"] = "-Zmiri-disable-isolation"
    procs = [(st, subprocess.Popen(["cargo", "+nightly", "miri", "run", "-p", "c16miri", "--", str(st)], cwd=a["harness"], env=env,
                                   stdout=subprocess.PIPE, stderr=subprocess.PIPE, text=True)) for st in (44, 65, 87)]
    violations, samples, evals = [], [], 0
    for st, pr in procs:
        try:
            out, err = pr.communicate(timeout=5400)
        except subprocess.TimeoutExpired:
            pr.kill()
            raise Inconclusive("miri run exceeded its watchdog")
        probes = [l for l in out.splitlines() if l.startswith("C16MIRI probe")]
        evals += len(probes)
        if "Undefined Behavior" in err:
            violations.append(dict(signature=f"C16|miri-ub|ML-DSA-{st}", detail="Miri reports undefined behaviour while dropping / reading back a key object: " + err[err.find("Undefined Behavior"):][:500],
                                   replay=dict(kind="c16-miri", set=st)))
        elif f"C16MIRI ok set={st}" in out:
            samples.append(dict(set=st, tool="miri", probes=probes[:2]))
        elif f"C16MIRI VIOLATION set={st}" in out:
            violations.append(dict(signature=f"C16|not-erased-under-miri|ML-DSA-{st}", detail="; ".join(probes), replay=dict(kind="c16-miri", set=st)))
        else:
            raise Inconclusive(f"miri run for ML-DSA-{st} ended without a verdict: {err[-400:]}")
    return dict(property_id="C16", stage="c16-miri", build="miri", tier=a["tier"], seed=a["seed"], rule="", exhaustive=False,
                evaluations=evals, distinct_nontrivial=evals, samples=samples, counters=dict(miri_probes=evals), violations=violations, inconclusive=[], wall_s=time.time() - t0)


# ---------------------------------------------------------------------------------------------
# C13 thorough: coverage-guided hostile workload (cargo-fuzz = libFuzzer + ASan, debug assertions on)
# ---------------------------------------------------------------------------------------------

def c13_fuzz(a):
    proj = os.path.join(a["verif"], "fuzzproj")
    if subprocess.run(["cargo", "+nightly", "fuzz", "--version"], capture_output=True).returncode != 0:
        raise Inconclusive("cargo-fuzz not available")
    env = dict(a["env"])
    t0 = time.time()
    per_target = 25 if a["tier"] == "quick" else 100
    r = subprocess.run(["cargo", "+nightly", "fuzz", "build"], cwd=proj, env=env, capture_output=True, text=True, timeout=3600)
    if r.returncode != 0:
        raise Inconclusive(f"cargo fuzz build failed: {r.stderr[-600:]}")
    violations, inconclusive, samples, counters = [], [], [], {}
    evals = 0
    for target in ("fuzz_verify", "fuzz_sk", "fuzz_decode"):
        art = os.path.join(proj, "fuzz", "artifacts", target)
        shutil.rmtree(art, ignore_errors=True)
        corpus = os.path.join(proj, "fuzz", "corpus", target)
        os.makedirs(corpus, exist_ok=True)
        cmd = ["cargo", "+nightly", "fuzz", "run", target, "--", f"-max_total_time={per_target}", "-timeout=20", "-rss_limit_mb=4096",
               f"-seed={a['seed']}", "-fork=16", "-ignore_timeouts=1", "-ignore_ooms=1", "-max_len=16384", "-len_control=0"]
        r = subprocess.run(cmd, cwd=proj, env=env, capture_output=True, text=True, timeout=per_target * 6 + 900)
        m = re.findall(r"#(\d+):? cov: (\d+)", r.stderr)
        execs = max([int(x[0]) for x in m], default=0)
        cov = max([int(x[1]) for x in m], default=0)
        evals += execs
        counters[f"{target}_executions"] = execs
        counters[f"{target}_coverage_edges"] = cov
        crashes = sorted(f for f in (os.listdir(art) if os.path.isdir(art) else []) if f.startswith("crash-"))
        slow = [f for f in (os.listdir(art) if os.path.isdir(art) else []) if f.startswith(("timeout-", "oom-", "slow-unit-"))]
        if slow:
            inconclusive_note = f"{target}: {len(slow)} timeout/oom units (inconclusive, not a violation)"
            counters[f"{target}_timeouts_or_ooms"] = len(slow)
            a["log"](inconclusive_note)
        for c in crashes[:3]:
            data = open(os.path.join(art, c), "rb").read()
            # what did it die of
            why = re.findall(r"(panicked at [^\n]+\n[^\n]*|ERROR: AddressSanitizer[^\n]*|SUMMARY: [^\n]*)", r.stderr)
            first = why[0].replace("\n", " ")[:300] if why else "crash"
            key = re.sub(r":\d+:\d+", "", first)[:120]
            violations.append(dict(signature=f"C13|fuzz-crash|{target}|{key}", detail=f"libFuzzer target {target} crashed: {first}",
                                   replay=dict(kind="c13-fuzz", target=target, input_hex=data.hex()[:40000], artifact=c)))
        if execs == 0:
            inconclusive.append(f"{target}: libFuzzer reported no executions: {r.stderr[-300:]}")
        samples.append(dict(target=target, executions=execs, coverage_edges=cov, crashes=len(crashes)))
    return dict(property_id="C13", stage="c13-fuzz", build="asan+libfuzzer+debug-assertions", tier=a["tier"], seed=a["seed"], rule="", exhaustive=False,
                evaluations=evals, distinct_nontrivial=sum(v for k, v in counters.items() if k.endswith("coverage_edges")),
                samples=samples, counters=counters, violations=violations, inconclusive=inconclusive, wall_s=time.time() - t0)


PLANS["C13"]["stages"].append(dict(name="c13-fuzz", kind="py", func="c13_fuzz", tiers=["thorough"]))


def c14_taintpipe(a):
    """memcheck secret-taint of the WHOLE constant-time-test pipeline: the RNG output (xi || rnd) is marked
    undefined; every tainted branch/address is a report; reports are allowed only at the one public-data
    site whose outcome cannot vary (bit_unpack's range check inside expand_mask, gamma1 a power of two).
    Run on the harness build and on builds that mirror the crate's own dev / release / bench profiles:
    the compiler decides per profile whether a branch-free source expression stays branch-free."""
    if not shutil.which("valgrind"):
        raise Inconclusive("valgrind not available")
    repo = a.get("repo", "/repo")
    profiles = [None, "release", "bench"] if a["tier"] == "quick" else [None, "dev", "release", "bench"]
    exes = {p: _build_ct(a, None, p) for p in profiles}
    t0 = time.time()
    runs = 3 if a["tier"] == "quick" else 24
    violations, samples, counters = [], [], {}
    evals = 0

    def one(job):
        prof, st = job
        out = os.path.join(a["work"], f"c14-taintpipe-{prof or 'harness'}-{st}.json")
        if os.path.exists(out):
            os.remove(out)
        r = subprocess.run(["valgrind", "--error-exitcode=0", "--error-limit=no", "--num-callers=14", exes[prof], "taintpipe", str(st), str(a["seed"]), str(runs), out],
                           capture_output=True, text=True, timeout=3600)
        return prof, st, out, r
    from concurrent.futures import ThreadPoolExecutor
    with ThreadPoolExecutor(max_workers=12) as ex:
        results = list(ex.map(one, [(p, st) for p in profiles for st in (44, 65, 87)]))
    for prof, st, out, r in results:
        pname = prof or "harness"
        if not os.path.exists(out):
            raise Inconclusive(f"taintpipe run failed ({pname}, {st}): {r.stderr[-300:]}")
        td = json.load(open(out))
        if not td.get("running_on_valgrind"):
            raise Inconclusive("client requests not honoured")
        evals += td["runs"]
        chains = _taint_chains(repo, r.stderr)
        allowed = sum(n for ch, n in chains.items() if ch[:3] == ALLOWED_TAINT_CHAIN)
        bad = {ch: n for ch, n in chains.items() if ch[:3] != ALLOWED_TAINT_CHAIN}
        if allowed == 0:
            # the allowed site is reached on every run: its absence means the taint did not propagate
            raise Inconclusive(f"taintpipe ({pname}, ML-DSA-{st}): no report at the allowed public-data site: the secret taint was not observed at all")
        counters[f"taintpipe_{pname}_ML-DSA-{st}_allowed_public_site_reports"] = allowed
        counters[f"taintpipe_{pname}_ML-DSA-{st}_other_reports"] = sum(bad.values())
        heads = {}
        for ch, n in bad.items():
            heads.setdefault(ch[0] if ch else "?", []).append((ch, n))
        for head, lst in sorted(heads.items()):
            where = "; ".join(" <- ".join(ch[:5]) + f" (x{n})" for ch, n in sorted(lst))
            violations.append(dict(signature=f"C14|pipeline-taint|{pname}|ML-DSA-{st}|{head}",
                                   detail=f"memcheck ({pname} profile, ML-DSA-{st}): a branch or address depends on the RNG output inside {head}: {where}",
                                   replay=dict(kind="c14-taintpipe", set=st, seed=a["seed"], profile=pname)))
        if st == 44 or bad:
            samples.append(dict(profile=pname, set=st, runs=td["runs"], tainted_input="xi || rnd (64 bytes)",
                                allowed_reports_at=" <- ".join(ALLOWED_TAINT_CHAIN) + " (range check, constant outcome)",
                                allowed=allowed, other=sum(bad.values()), other_chains=[" <- ".join(ch) for ch in sorted(bad)]))
    return dict(property_id="C14", stage="c14-taintpipe", build="release+memcheck", tier=a["tier"], seed=a["seed"], rule="", exhaustive=False,
                evaluations=evals, distinct_nontrivial=evals, samples=samples[:4], counters=counters, violations=violations, inconclusive=[], wall_s=time.time() - t0)


PLANS["C14"]["stages"].insert(2, dict(name="c14-taintpipe", kind="py", func="c14_taintpipe"))
PLANS["C14"]["rule_prefix"] += "Also the whole pipeline under memcheck with the RNG output marked undefined, per profile: reports are attributed to crate source functions through debug-info lines; tainted branches/addresses are allowed only at is_in_range <- bit_unpack <- expand_mask (range check with a constant outcome), which must be seen on every run. "


# ---------------------------------------------------------------------------------------------
# histories over long-lived key objects (shared stage, DESIGN 3.6): judged per property
# ---------------------------------------------------------------------------------------------
for _p in ("C01", "C02", "C03", "C04", "C07", "C09", "C10", "C11"):
    for _prof in ("release", "checked"):
        PLANS[_p]["stages"].append(dict(name=f"hist-{_prof}", kind="vh", stage="hist", profile=_prof,
                                       opts=dict(quick=dict(prop=_p), thorough=dict(prop=_p))))


# ---------------------------------------------------------------------------------------------
# harness flavours: the ordinary stages link the crate WITHOUT its `dudect` feature (as users build it);
# the stages below repeat the workloads that can tell the difference on a harness built with the feature
# (it adds the constant-time test entry point, and it is the one feature besides the parameter sets that
# changes what is compiled into the signing path).
# ---------------------------------------------------------------------------------------------
for _p, _stage, _extra in (("C12", "c12", {}), ("C13", "c13", dict(abort_is_violation=True)), ("C10", "c10", {})):
    for _prof in ("release", "checked"):
        _d = dict(name=f"{_stage}-{_prof}-dudect", kind="vh", stage=_stage, profile=_prof, features="dudect")
        _d.update(_extra)
        PLANS[_p]["stages"].append(_d)

# C12 once more on a harness whose rand_core has its std feature (feature unification gives the crate the
# same rand_core): generator errors may then be boxed std errors without a numeric code
PLANS["C12"]["stages"].append(dict(name="c12-release-rngstd", kind="vh", stage="c12", profile="release", features="rngstd"))

# the dudect flavour also for the checks whose subject the feature could plausibly touch (release build only)
for _p, _stage in (("C02", "c02"), ("C03", "c03"), ("C16", "c16")):
    PLANS[_p]["stages"].append(dict(name=f"{_stage}-release-dudect", kind="vh", stage=_stage, profile="release", features="dudect"))
