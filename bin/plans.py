"""Stage plans per property, and python-level stages that wrap other tools."""
import json, os, subprocess, time, re, hashlib, shutil


class Inconclusive(Exception):
    pass


def vh(name, stage, profile, **kw):
    d = dict(name=name, kind="vh", stage=stage, profile=profile)
    d.update(kw)
    return d


def both(stage, **kw):
    """release build for the verdict users see, checked build so that the crate's own
    debug assertions and the compiler's overflow checks monitor the same traffic"""
    return [vh(f"{stage}-release", stage, "release", **kw), vh(f"{stage}-checked", stage, "checked", **kw)]


ASSUME_REF = [
    "the spec-literal reference model (harness/refimpl) is FIPS 204; it is re-validated against the 180 ACVP vectors (copies under fixtures/acvp) and its own schoolbook multiply on every run, and a failure makes the run inconclusive",
    "SHAKE128/256 and SHA-256/512 from the sha3/sha2 crates are correct (shared with the crate under test)",
]

PLANS = {
    "C01": dict(level="exploration", stages=both("c01"), assumptions=ASSUME_REF),
    "C02": dict(level="exploration", stages=both("c02"), assumptions=ASSUME_REF),
    "C03": dict(level="exploration", stages=both("c03"), assumptions=ASSUME_REF),
    "C04": dict(level="exploration", stages=both("c04"), assumptions=ASSUME_REF),
    "C05": dict(level="exploration", stages=both("c05"), assumptions=ASSUME_REF),
    "C06": dict(level="exploration", stages=both("c06"), assumptions=ASSUME_REF),
    "C07": dict(level="exploration", stages=both("c07"), assumptions=ASSUME_REF),
    "C08": dict(level="exploration", stages=both("c08"), assumptions=ASSUME_REF),
    "C09": dict(level="exploration", stages=both("c09"), assumptions=ASSUME_REF),
    "C10": dict(level="exploration", stages=both("c10"),
                assumptions=["the harness's own bit-field writer (gen::set_eta_field) addresses the FIPS 204 skEncode layout; it is cross-checked against the reference skDecode in-range predicate"]),
    "C11": dict(level="exploration", stages=both("c11"), assumptions=ASSUME_REF),
    "C12": dict(level="fault_enumeration", stages=both("c12") + [dict(name="c12-strace", kind="py", func="c12_strace", tiers=["thorough"])],
                assumptions=["rand_core 0.6 RngCore/CryptoRng is the only randomness interface of the crate", "OsRng draws through the getrandom syscall on this platform (checked by the strace stage)"]),
    "C13": dict(level="exploration",
                stages=[vh("c13-checked", "c13", "checked", abort_is_violation=True),
                        vh("c13-release", "c13", "release", abort_is_violation=True),
                        vh("c13f4-checked", "c13f4", "checked", abort_is_violation=True, timeout=dict(quick=900, thorough=5400))],
                assumptions=["panics are observed through catch_unwind + panic hook in a build with debug-assertions and overflow-checks on (profile 'checked', opt-level 2); aborts through the stage's exit signal",
                             "a watchdog kill (hang) is reported as inconclusive; termination of the signing loop is decided by the logical bound (16-bit counter overflow check), not by wall-clock"]),
    "C15": dict(level="exploration", stages=both("c15"),
                assumptions=["big-integer definitions in harness/vh/src/props/c15.rs (cross-checked against the reference model at start-up) are the FIPS 204 definitions of the auxiliary functions",
                             "'documented input range' = the debug_assert preconditions / doc comments in helpers.rs"]),
    "C18": dict(level="exploration", stages=both("c18"),
                assumptions=ASSUME_REF + ["the schoolbook negacyclic product in i128 (refimpl::schoolbook_mul) is the definition of multiplication in Z_q[X]/(X^256+1)",
                                          "no adversarial witness is constructible for ML-DSA-44 with this method (DESIGN 3.2); for 44 the check relies on extremal patterns"]),
}


def c12_strace(a):
    """syscall-level monitor: exactly one getrandom(…, 32, 0) per OS-RNG API call"""
    exe = a["build"]("release")
    if exe is None:
        raise Inconclusive("build failed")
    if not shutil.which("strace"):
        raise Inconclusive("strace not available")
    calls = 6
    out = os.path.join(a["work"], "c12-strace.txt")
    rep = os.path.join(a["work"], "c12-strace-report.json")
    t0 = time.time()
    r = subprocess.run(["strace", "-f", "-e", "trace=getrandom", "-o", out, exe, "c12os", "--opt", f"calls={calls}", "--out", rep],
                       stdout=subprocess.PIPE, stderr=subprocess.PIPE, text=True, timeout=600)
    if not os.path.exists(rep) or not os.path.exists(out):
        raise Inconclusive(f"strace could not run the workload: {r.stderr[-300:]}")
    with open(rep) as f:
        vr = json.load(f)
    os_calls = vr.get("counters", {}).get("os_calls", 0)
    n32 = 0
    other = []
    for line in open(out):
        m = re.search(r"getrandom\((.*?), (\d+), ([A-Z_|0-9x]+)\)\s+= (-?\d+)", line)
        if not m:
            continue
        ln, ret = int(m.group(2)), int(m.group(4))
        if ln == 32 and ret == 32:
            n32 += 1
        else:
            other.append((ln, ret))
    violations = []
    if os_calls == 0:
        raise Inconclusive("no OS-RNG calls were made")
    if n32 != os_calls:
        violations.append(dict(signature=f"C12|getrandom-count|calls={os_calls}|syscalls32={n32}",
                               detail=f"{os_calls} OS-RNG API calls made {n32} getrandom(32) syscalls (expected one fresh 32-byte draw per call)",
                               replay=dict(kind="c12-strace", calls=calls)))
    return dict(property_id="C12", stage="c12-strace", build="release", tier=a["tier"], seed=a["seed"],
                rule="strace -e trace=getrandom around a loop of try_keygen / KG::try_keygen / try_sign / try_hash_sign calls",
                exhaustive=False, evaluations=os_calls, distinct_nontrivial=n32,
                samples=[dict(os_rng_api_calls=os_calls, getrandom_32_byte_syscalls=n32, other_getrandom_calls=other[:6])],
                counters=dict(os_rng_api_calls=os_calls, getrandom32=n32), violations=violations, inconclusive=[], wall_s=time.time() - t0)
