"""Stage plans per property, and python-level stages that wrap other tools."""
import json, os, subprocess, time, re, hashlib, shutil


class Inconclusive(Exception):
    pass


def vh(name, stage, profile, **kw):
    d = dict(name=name, kind="vh", stage=stage, profile=profile)
    d.update(kw)
    return d


def both(stage, **kw):
    """release build for the verdict users see, checked build so that the crate's own
    debug assertions and the compiler's overflow checks monitor the same traffic"""
    return [vh(f"{stage}-release", stage, "release", **kw), vh(f"{stage}-checked", stage, "checked", **kw)]


ASSUME_REF = [
    "the spec-literal reference model (harness/refimpl) is FIPS 204; it is re-validated against the 180 ACVP vectors (copies under fixtures/acvp) and its own schoolbook multiply on every run, and a failure makes the run inconclusive",
    "SHAKE128/256 and SHA-256/512 from the sha3/sha2 crates are correct (shared with the crate under test)",
]

PLANS = {
    "C01": dict(level="exploration", stages=both("c01"), assumptions=ASSUME_REF),
    "C02": dict(level="exploration", stages=both("c02"), assumptions=ASSUME_REF),
    "C03": dict(level="exploration", stages=both("c03"), assumptions=ASSUME_REF),
    "C04": dict(level="exploration", stages=both("c04"), assumptions=ASSUME_REF),
}
