#!/usr/bin/env python3
"""Regenerate /verif/MANIFEST.json from the table below (keeps it schema-valid and in step with plans.py)."""
import json, os, sys, subprocess
sys.path.insert(0, os.path.dirname(os.path.abspath(__file__)))
import plans

VERIF = "/verif"

REF_NOTE = ("Trusted base: the spec-literal reference model in harness/refimpl (validated on every run against 180 ACVP "
            "vectors kept under fixtures/acvp and against its own schoolbook multiply; failure => inconclusive), the "
            "sha2/sha3 crates, rustc. Finite sample of an unbounded input space: 'held on N executions', not verified.")

CHECKS = {
    "C01": dict(
        technique="runtime differential monitoring: sign->verify oracle over key-provenance x shape x mode workloads, reference verifier, checked-build self-checks",
        text="Real sign/verify executed over seeds x 4 pk provenances x 2 sk provenances x boundary-length messages/contexts x 4 modes x rnd classes in release and checked (debug_assert + overflow-check) builds; every signature must verify under all provenances and under an independent FIPS 204 reference verifier; a rare-event pass re-checks the signatures with the largest hint weight / |z| found among thousands.",
        design_ref="5/C01", note=REF_NOTE),
    "C02": dict(
        technique="runtime differential monitoring against an executable FIPS 204 reference on constructed boundary inputs",
        text="verify()/hash_verify() and the reference Verify are run on identical bytes over ten workload classes including degenerate-key forgeries that place ||z|| exactly at gamma1-beta-1 / gamma1-beta, hint weight exactly omega, every hint-encoding malformation (also with c~ forged for the lenient reading), context lengths around 255/256, cross-mode pairs, adversarial sparse-coset signatures and the ACVP sigVer vectors; any boolean mismatch or panic is a violation.",
        design_ref="5/C02, 3.1, 3.2", note=REF_NOTE),
    "C03": dict(
        technique="runtime differential monitoring: byte comparison with reference Sign under a recording/replaying RNG",
        text="Signatures produced through the public API with a replaying RNG are compared byte-for-byte with the reference ML-DSA.Sign / HashML-DSA.Sign computed from the private-key bytes, for generated, round-tripped and hostile-but-accepted keys, all modes and shapes; the RNG request log and cross-thread repeatability are monitored; ACVP sigGen vectors replayed.",
        design_ref="5/C03", note=REF_NOTE),
    "C04": dict(
        technique="runtime differential monitoring: byte comparison with reference KeyGen_internal, RNG request log",
        text="Seeded and RNG-driven key generation (three entry points) compared byte-for-byte with the reference KeyGen_internal over fixed, single-bit, random and rare-sampler-event seeds; the recording RNG proves one 32-byte fallible draw and no other source of variation.",
        design_ref="5/C04", note=REF_NOTE),
    "C05": dict(
        technique="runtime monitoring: exhaustive single-bit mutation of valid tuples against verify(), reference cross-check",
        text="For each valid (pk, M, ctx, mode, sig) tuple — honest keys in all modes, a heavy-hint tuple, a degenerate-key tuple — every bit position of the signature, serialised public key, message and context is flipped and verify must return false; exhaustive over positions per tuple; acceptances and a 1% sample of rejections are cross-checked with the reference.",
        design_ref="5/C05", note=REF_NOTE),
    "C06": dict(
        technique="runtime monitoring: verify() oracle over every alternative interpretation of signed bytes (all splits, cross-mode mimicry, other PH)",
        text="Signatures are re-verified under every other ctx/message split of the same concatenation (all i <= 255), under messages crafted to mimic the other mode's formatted input, and under every other pre-hash function; all must be rejected while the original verifies; the reference runs on the same alternatives.",
        design_ref="5/C06", note=REF_NOTE),
    "C07": dict(
        technique="runtime monitoring: exhaustive context-length sweep with alias forgeries (crate signer and reference-made literal encodings)",
        text="Every context length 0..=1100 (thorough 0..=70000) x 4 modes x 3 sets: Ok/Err pattern of signing, true/false of verify, and alias forgeries for wrapped / truncated / saturated length bytes must be rejected.",
        design_ref="5/C07", note=REF_NOTE),
    "C08": dict(
        technique="runtime differential monitoring of codec hooks against bit-literal reference codecs; exhaustive byte-string sweeps at reduced hint parameters",
        text="sig_decode/sig_encode, hint_bit_unpack/pack, bit_unpack/pack, pk/sk/w1 codecs are driven through verif_hooks on honest, mutated, boundary and malformed inputs and compared with Algorithms 16-28 of the reference; re-encoding identity is checked on every accepted input; the hint codec is enumerated over ALL byte strings at (K,omega) in {(1,1),(1,2),(2,1)} (thorough: (1,3),(2,2),(3,1), 2^32 strings each) including the bijection count.",
        design_ref="5/C08", note=REF_NOTE + " The reduced-parameter sweeps exercise the same generic code as the real (K, omega) but are not the real parameters."),
    "C09": dict(
        technique="runtime monitoring: byte-identity round trips on constructed extremal encodings, behavioural equivalence of original vs round-tripped keys",
        text="Public-key byte strings (extremal, per-slot extremes, random) and accepted private-key encodings (every pattern of range ends, arbitrary rho/K/tr/t0) are deserialised and re-serialised and must be byte-identical; generated vs round-tripped keys must sign identically and decide identically on valid, mutated and boundary inputs; run in release and checked builds.",
        design_ref="5/C09", note=REF_NOTE),
    "C10": dict(
        technique="runtime monitoring: exhaustive single-field corruption partition of the private-key encoding against try_from_bytes",
        text="All (vector, polynomial, coefficient, out-of-range field value) single-field corruptions of two base keys per set (6144/19712/11520 x 2) must be rejected, multi-field corruptions too; all in-range field values and extremal in-range keys must be accepted and re-serialise without tripping the range self-check (checked build).",
        design_ref="5/C10", note="Trusted base: the harness's bit-field writer and the reference skDecode range predicate; rustc. The reject side is exhaustive over single-field corruptions of the chosen bases, not over all byte strings."),
    "C11": dict(
        technique="runtime monitoring: derived vs generated vs deserialised public key compared in bytes and in verification decisions",
        text="get_public_key() of generated and round-tripped private keys is compared byte-for-byte with the generated key and the reference, and in decisions on valid signatures of all modes, mutants, wrong-context and other-key probes; hostile accepted keys are compared with the reference's pk from (rho, s1, s2).",
        design_ref="5/C11", note=REF_NOTE),
    "C12": dict(
        technique="fault injection at the caller's RngCore (fault matrix), recording RNG log, single-bit influence sweep, getrandom syscall monitor",
        text="Complete fault matrix entry point x set x failing request x fault kind (error before write, after partial write with poisoned tail, after full write): Err without unwinding whenever the fault fires; strict RNG proves only try_fill_bytes(32) is used; all 256 bits of every draw are flipped and must change pk, sk and signature; OS-RNG functions give pairwise distinct outputs (thorough: strace counts one getrandom(32) per call).",
        design_ref="5/C12", note="Trusted base: rand_core 0.6 trait semantics; strace for the syscall stage. The matrix is complete for the fault kinds listed; other RNG misbehaviour (e.g. returning Ok with constant bytes) is outside the property."),
    "C13": dict(
        technique="runtime panic monitor (catch_unwind + panic hook + exit-signal) over hostile workloads in a checked build (debug assertions + overflow checks as online invariant monitors)",
        text="Every public call is driven with random bytes, structure-aware hostile-but-accepted private keys (then serialised, derived, used to sign in all modes), extremal and malformed signatures, degenerate public keys, adversarial sparse-coset fixtures, long messages and contexts, and the rejection-heavy hostile-t0 signing workload; any unwind or abort is a violation keyed on (panic location, API, input class).",
        design_ref="5/C13, 2.5", note="Trusted base: rustc's overflow checks and the crate's own debug_assert!s as the monitors; the structure-aware generators reach only what they construct. No proof of panic freedom."),
    "C14": dict(
        technique="compiler coverage instrumentation (SanitizerCoverage edges + load/store addresses) with an online trace-equality monitor; valgrind memcheck secret-taint; callgrind profile equality",
        text="dudect_keygen_sign_with_rng and each secret-handling kernel (via verif_hooks) are run in SanitizerCoverage-instrumented optimised builds; the complete edge sequence and load/store address sequence are hashed per run and must be identical for every RNG output / in-domain input (first divergence is located and symbolised when not). The pipeline inputs include RNG outputs predicted by the instrumented reference (constant-time-test mode) to drive rare key-generation events. Kernels AND the whole pipeline are additionally run under memcheck with their secret inputs marked undefined (secret taint at machine-code level; the only allowed reporting site is bit_unpack's constant-outcome range check inside expand_mask); the machine-level stages run on the harness build and on builds reproducing the crate's own dev / release / bench profiles (opt-level, LTO, codegen units), reports being attributed to crate source functions through debug-info lines; thorough adds opt-levels 1 and s for the coverage traces and callgrind per-instruction / per-branch profile equality of the pipeline, localised to source lines. Known finding F6 (release profile, ML-DSA-44, decompose compiled to a jump) is reported as KNOWN-FINDING.",
        design_ref="5/C14, 2.6", note="Trusted base: LLVM's sancov pass inserts a callback on every edge, load and store of the allow-listed crates (fips204, the driver, sha3, keccak, digest, block-buffer, zeroize, rand_core); memcpy intrinsics are not traced; valgrind's definedness tracking. Micro-architectural timing (incl. variable-latency instructions) is out of scope, as for the property. Machine-level verdicts hold for this compiler and the profiles built. Finite set of inputs."),
    "C15": dict(
        technique="runtime monitoring by exhaustive domain sweeps through verif_hooks against big-integer definitions",
        text="Each scalar function is evaluated on its whole input domain (2^23-2^32 points; thorough is exhaustive: 3.4e11 evaluations; quick sweeps the 2^23/2^24 domains fully and the 2^32 domains at a seeded stride plus boundary windows) and compared with i64/i128 definitions; the checked build replays a strided subset so the crate's own range assertions monitor the same inputs.",
        design_ref="5/C15", note="Trusted base: the big-integer definitions (cross-checked against the reference model), rustc. mont_reduce is exhaustive over low words for 74 high words, not over all 2^54 inputs."),
    "C16": dict(
        technique="runtime memory monitor: volatile read-back of the object's storage after drop_in_place (native, and under Miri in thorough)",
        text="Key objects of every type/provenance/placement are written into harness-owned storage, checked to be mostly non-zero, dropped in place, and every byte of size_of::<T>() is read back and must be zero; thorough repeats a condensed run under Miri, which also checks that the raw reads are defined.",
        design_ref="5/C16", note="Trusted base: the harness's unsafe raw-pointer reads (validated under Miri); cannot see stale copies left by moves before the drop."),
    "C17": dict(
        technique="configuration enumeration with build-status and known-answer-digest monitors; real no_std target build",
        text="All 28 feature configurations are built (warnings are errors), a known-answer program is built and run per configuration and its per-set transcript digest compared with the default configuration's, OS-RNG and dudect entry points are exercised where enabled, and the 14 configurations without default-rng are compiled for x86_64-unknown-none with a std-less sysroot.",
        design_ref="5/C17", note="Trusted base: cargo/rustc feature resolution; the default configuration as behavioural reference. Exhaustive over the 28 configurations, sampled over inputs (fixed transcript)."),
    "C18": dict(
        technique="runtime monitoring of the real NTT pipelines through hooks against a schoolbook oracle; overflow-check panics; adversarial sparse-coset input search",
        text="The transform / pointwise-multiply(-accumulate) / inverse-transform pipelines are replayed through verif_hooks in the exact compositions of ml_dsa.rs and compared with the O(n^2) negacyclic product for all basis polynomials x scalars, extremal sign patterns and random inputs at every call-site range, in release and checked (overflow-check) builds; sparse-coset adversarial rows (which drive the sum of the inverse NTT's inputs to 1.2 x 2^31) for ML-DSA-65/87 are checked at hook level and as FIPS-valid signatures through verify() against the reference.",
        design_ref="5/C18, 3.2", note=REF_NOTE + " Overflow freedom is observed on the inputs driven, not proved; no adversarial witness exists for ML-DSA-44 with this construction."),
}

HIST_NOTE = " A shared history stage (DESIGN 3.6) additionally applies long random sequences of API calls to long-lived, near-twin key objects of all three parameter sets in one thread and compares every step with the stateless reference; this check judges the kind of step that belongs to its property."
for _p in ("C01", "C02", "C03", "C04", "C07", "C09", "C10", "C11"):
    CHECKS[_p]["text"] += HIST_NOTE
for _p in ("C02", "C03", "C10", "C12", "C13", "C16"):
    CHECKS[_p]["text"] += " The workload runs on two flavours of the harness: linked with the crate as users build it (feature dudect off) and linked with feature dudect on."

ALL = [f"C{i:02d}" for i in range(1, 19)]


def main():
    checks = []
    for pid in ALL:
        if pid not in CHECKS or pid not in plans.PLANS:
            continue
        c = CHECKS[pid]
        checks.append(dict(
            property_id=pid,
            quick_cmd=f"bin/check {pid} --tier quick",
            thorough_cmd=f"bin/check {pid} --tier thorough",
            evidence_file=f"/verif/evidence/{pid}.json",
            replay_cmd_template=f"bin/check {pid} --replay {{path}}",
            engine="vh",
            level_claimed=dict(category=plans.PLANS[pid]["level"], text=c["text"], design_ref=c["design_ref"]),
            level_note=c["note"],
            technique=c["technique"],
        ))
    na = [dict(property_id=p, reason="check under construction in this round: not claimed until its monitor is built and silent on the unchanged tree")
          for p in ALL if p not in CHECKS or p not in plans.PLANS]
    hooks_commits = subprocess.run(["git", "-C", "/repo", "log", "--format=%H", "--grep", "verif-hooks"],
                                   capture_output=True, text=True).stdout.split()
    m = dict(
        version=1,
        setup_cmd="bin/setup",
        hooks=dict(
            guard="cargo feature verif-hooks (off by default; adds src/verif_hooks.rs)",
            enable="the harness crates depend on fips204 by path (/repo) with features = [\"verif-hooks\"]; the crate's own `dudect` feature is added by the harness feature `dudect` (flavour builds) and by the C14 driver",
            baseline_off_cmd="cd /repo && cargo test --workspace --no-fail-fast --offline",
            source_commits=hooks_commits,
            add_only=True,
        ),
        engines=[
            dict(name="vh", path="harness/vh", serves_properties=sorted(CHECKS.keys()),
                 kind_free_text="Rust harness binary linking the real crate from /repo: workload generators, monitors (panic hook, recording/fault RNG, reference-model differential, trace hashing), built in release and checked (debug-assertions + overflow-checks) profiles"),
            dict(name="refimpl", path="harness/refimpl", serves_properties=["C01", "C02", "C03", "C04", "C05", "C06", "C07", "C08", "C09", "C11", "C18"],
                 kind_free_text="independent spec-literal FIPS 204 reference model used as the oracle of the differential monitors"),
            dict(name="check", path="bin/check", serves_properties=sorted(CHECKS.keys()),
                 kind_free_text="python driver: builds from /repo's working tree, runs stages, three-valued verdict, evidence, replays, known findings"),
        ],
        checks=checks,
        not_applicable=na,
        notes="Technique family: runtime monitoring and sanitizers. All verdicts are 'held on the executions observed'. exit 0 ok / 1 violation / 2 inconclusive.",
    )
    with open(os.path.join(VERIF, "MANIFEST.json"), "w") as f:
        json.dump(m, f, indent=1)
    print("MANIFEST.json written:", len(checks), "checks,", len(na), "not claimed")


if __name__ == "__main__":
    main()
