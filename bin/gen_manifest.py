#!/usr/bin/env python3
"""Regenerate /verif/MANIFEST.json from the table below (keeps it schema-valid and in step with plans.py)."""
import json, os, sys, subprocess
sys.path.insert(0, os.path.dirname(os.path.abspath(__file__)))
import plans

VERIF = "/verif"

REF_NOTE = ("Trusted base: the spec-literal reference model in harness/refimpl (validated on every run against 180 ACVP "
            "vectors kept under fixtures/acvp and against its own schoolbook multiply; failure => inconclusive), the "
            "sha2/sha3 crates, rustc. Finite sample of an unbounded input space: 'held on N executions', not verified.")

CHECKS = {
    "C01": dict(
        technique="runtime differential monitoring: sign->verify oracle over key-provenance x shape x mode workloads, reference verifier, checked-build self-checks",
        text="Real sign/verify executed over seeds x 4 pk provenances x 2 sk provenances x boundary-length messages/contexts x 4 modes x rnd classes in release and checked (debug_assert + overflow-check) builds; every signature must verify under all provenances and under an independent FIPS 204 reference verifier; a rare-event pass re-checks the signatures with the largest hint weight / |z| found among thousands.",
        design_ref="5/C01", note=REF_NOTE),
    "C02": dict(
        technique="runtime differential monitoring against an executable FIPS 204 reference on constructed boundary inputs",
        text="verify()/hash_verify() and the reference Verify are run on identical bytes over ten workload classes including degenerate-key forgeries that place ||z|| exactly at gamma1-beta-1 / gamma1-beta, hint weight exactly omega, every hint-encoding malformation (also with c~ forged for the lenient reading), context lengths around 255/256, cross-mode pairs, adversarial sparse-coset signatures and the ACVP sigVer vectors; any boolean mismatch or panic is a violation.",
        design_ref="5/C02, 3.1, 3.2", note=REF_NOTE),
    "C03": dict(
        technique="runtime differential monitoring: byte comparison with reference Sign under a recording/replaying RNG",
        text="Signatures produced through the public API with a replaying RNG are compared byte-for-byte with the reference ML-DSA.Sign / HashML-DSA.Sign computed from the private-key bytes, for generated, round-tripped and hostile-but-accepted keys, all modes and shapes; the RNG request log and cross-thread repeatability are monitored; ACVP sigGen vectors replayed.",
        design_ref="5/C03", note=REF_NOTE),
    "C04": dict(
        technique="runtime differential monitoring: byte comparison with reference KeyGen_internal, RNG request log",
        text="Seeded and RNG-driven key generation (three entry points) compared byte-for-byte with the reference KeyGen_internal over fixed, single-bit, random and rare-sampler-event seeds; the recording RNG proves one 32-byte fallible draw and no other source of variation.",
        design_ref="5/C04", note=REF_NOTE),
}

ALL = [f"C{i:02d}" for i in range(1, 19)]


def main():
    checks = []
    for pid in ALL:
        if pid not in CHECKS or pid not in plans.PLANS:
            continue
        c = CHECKS[pid]
        checks.append(dict(
            property_id=pid,
            quick_cmd=f"bin/check {pid} --tier quick",
            thorough_cmd=f"bin/check {pid} --tier thorough",
            evidence_file=f"/verif/evidence/{pid}.json",
            replay_cmd_template=f"bin/check {pid} --replay {{path}}",
            engine="vh",
            level_claimed=dict(category=plans.PLANS[pid]["level"], text=c["text"], design_ref=c["design_ref"]),
            level_note=c["note"],
            technique=c["technique"],
        ))
    na = [dict(property_id=p, reason="check under construction in this round: not claimed until its monitor is built and silent on the unchanged tree")
          for p in ALL if p not in CHECKS or p not in plans.PLANS]
    hooks_commits = subprocess.run(["git", "-C", "/repo", "log", "--format=%H", "--grep", "verif-hooks"],
                                   capture_output=True, text=True).stdout.split()
    m = dict(
        version=1,
        setup_cmd="bin/setup",
        hooks=dict(
            guard="cargo feature verif-hooks (off by default; adds src/verif_hooks.rs)",
            enable="the harness crate depends on fips204 by path (/repo) with features = [\"verif-hooks\", \"dudect\"]",
            baseline_off_cmd="cd /repo && cargo test --workspace --no-fail-fast --offline",
            source_commits=hooks_commits,
            add_only=True,
        ),
        engines=[
            dict(name="vh", path="harness/vh", serves_properties=sorted(CHECKS.keys()),
                 kind_free_text="Rust harness binary linking the real crate from /repo: workload generators, monitors (panic hook, recording/fault RNG, reference-model differential, trace hashing), built in release and checked (debug-assertions + overflow-checks) profiles"),
            dict(name="refimpl", path="harness/refimpl", serves_properties=["C01", "C02", "C03", "C04", "C05", "C06", "C07", "C08", "C09", "C11", "C18"],
                 kind_free_text="independent spec-literal FIPS 204 reference model used as the oracle of the differential monitors"),
            dict(name="check", path="bin/check", serves_properties=sorted(CHECKS.keys()),
                 kind_free_text="python driver: builds from /repo's working tree, runs stages, three-valued verdict, evidence, replays, known findings"),
        ],
        checks=checks,
        not_applicable=na,
        notes="Technique family: runtime monitoring and sanitizers. All verdicts are 'held on the executions observed'. exit 0 ok / 1 violation / 2 inconclusive.",
    )
    with open(os.path.join(VERIF, "MANIFEST.json"), "w") as f:
        json.dump(m, f, indent=1)
    print("MANIFEST.json written:", len(checks), "checks,", len(na), "not claimed")


if __name__ == "__main__":
    main()
