//! Known-answer transcript per enabled parameter set (C17). Prints one line per set:
//!   KAT <set> <sha256 of transcript>
//! and, with feature dudect, `DUDECT <set> <sha256>`; with default-rng, `OSRNG <set> ok|FAIL`.
#![allow(deprecated, unused_imports, unused_macros, dead_code)]

use fips204::traits::{KeyGen, SerDes, Signer, Verifier};
use fips204::Ph;
use rand_core::{CryptoRng, Error, RngCore};
use sha2::{Digest, Sha256};

mod fixtures;

fn unhex(s: &str) -> Vec<u8> { (0..s.len() / 2).map(|i| u8::from_str_radix(&s[2 * i..2 * i + 2], 16).unwrap()).collect() }

struct Script {
    buf: [u8; 64],
    pos: usize,
}
impl RngCore for Script {
    fn next_u32(&mut self) -> u32 { unimplemented!() }
    fn next_u64(&mut self) -> u64 { unimplemented!() }
    fn fill_bytes(&mut self, _: &mut [u8]) { unimplemented!() }
    fn try_fill_bytes(&mut self, out: &mut [u8]) -> Result<(), Error> {
        for b in out.iter_mut() {
            *b = self.buf[self.pos % 64];
            self.pos += 1;
        }
        Ok(())
    }
}
impl CryptoRng for Script {}

fn hex(b: &[u8]) -> String { b.iter().map(|x| format!("{x:02x}")).collect() }

macro_rules! kat {
    ($m:ident, $name:expr) => {{
        use fips204::$m as ps;
        let mut t = Sha256::new();
        for s in 0u8..4 {
            let mut xi = [0u8; 32];
            for (i, b) in xi.iter_mut().enumerate() {
                *b = (i as u8).wrapping_mul(31).wrapping_add(s.wrapping_mul(97));
            }
            let (pk, sk) = ps::KG::keygen_from_seed(&xi);
            let mut buf = [0u8; 64];
            buf[..32].copy_from_slice(&xi);
            let (pk2, sk2) = ps::try_keygen_with_rng(&mut Script { buf, pos: 0 }).expect("keygen");
            let pkb = pk.clone().into_bytes();
            let skb = sk.clone().into_bytes();
            t.update(&pkb);
            t.update(&skb);
            t.update(pk2.into_bytes());
            t.update(sk2.into_bytes());
            t.update(sk.get_public_key().into_bytes());
            let pk_rt = ps::PublicKey::try_from_bytes(pkb).expect("pk rt");
            let sk_rt = ps::PrivateKey::try_from_bytes(skb).expect("sk rt");
            t.update(pk_rt.clone().into_bytes());
            t.update(sk_rt.clone().into_bytes());
            let msg = [s, 1, 2, 3, 4, 5];
            let ctx = [9u8, s];
            let mut rb = [0u8; 64];
            for (i, b) in rb.iter_mut().enumerate() {
                *b = (i as u8) ^ s.wrapping_mul(13);
            }
            let sig = sk.try_sign_with_rng(&mut Script { buf: rb, pos: 0 }, &msg, &ctx).expect("sign");
            t.update(&sig);
            t.update([u8::from(pk.verify(&msg, &sig, &ctx)), u8::from(pk_rt.verify(&msg, &sig, &[])), u8::from(pk.verify(&[0], &sig, &ctx))]);
            let mut bad = sig;
            bad[7] ^= 4;
            t.update([u8::from(pk.verify(&msg, &bad, &ctx))]);
            for ph in [Ph::SHA256, Ph::SHA512, Ph::SHAKE128] {
                let hs = sk_rt.try_hash_sign_with_rng(&mut Script { buf: rb, pos: 0 }, &msg, &ctx, &ph).expect("hash sign");
                t.update(&hs);
                t.update([u8::from(pk.hash_verify(&msg, &hs, &ctx, &ph)), u8::from(pk.verify(&msg, &hs, &ctx))]);
            }
            let is = ps::_internal_sign(&sk, &msg, &[], [s; 32]).expect("internal sign");
            t.update(&is);
            t.update([u8::from(ps::_internal_verify(&pk, &msg, &is, &[]))]);
            t.update([u8::from(sk.try_sign_with_rng(&mut Script { buf: rb, pos: 0 }, &msg, &[0u8; 256]).is_err())]);
        }
        // an accepted private key with (partly) extreme t0 and an input for which signing needs several
        // hundred rejection iterations (fixtures.rs, generated with the reference): the long-running path
        // and its iteration bound must behave the same in every configuration, and give the reference's
        // signature; a private key with one out-of-range field must be refused in every configuration
        for (set, skh, mh, rndh, _iters, want) in fixtures::HOSTILE {
            if set != $name {
                continue;
            }
            let skb: [u8; ps::SK_LEN] = unhex(skh).try_into().expect("fixture sk length");
            let hsk = ps::PrivateKey::try_from_bytes(skb).expect("hostile sk import");
            let mut rb = [0u8; 64];
            rb[..32].copy_from_slice(&unhex(rndh));
            let m = unhex(mh);
            match hsk.try_sign_with_rng(&mut Script { buf: rb, pos: 0 }, &m, &[]) {
                Ok(sig) => {
                    let dg = hex(&Sha256::digest(sig));
                    t.update(dg.as_bytes());
                    let ver = hsk.get_public_key().verify(&m, &sig, &[]);
                    t.update([u8::from(dg == want), u8::from(ver)]);
                    // (whether that signature verifies under the derived key is recorded, not judged: t0 and tr of
                    // this key are arbitrary, so the hints need not be the ones the public key expects)
                    println!("HOSTILE {} {}", $name, if dg == want { "ok" } else { "FAIL-differs-from-reference" });
                }
                Err(e) => {
                    t.update(e.as_bytes());
                    println!("HOSTILE {} FAIL-{}", $name, e.replace(' ', "_"));
                }
            }
            let mut bad = skb;
            bad[128] |= 7; // s1[0][0] raw field 7: out of range for eta = 2 and eta = 4
            t.update([u8::from(ps::PrivateKey::try_from_bytes(bad).is_err())]);
            t.update(hsk.into_bytes());
        }
        println!("KAT {} {}", $name, hex(&t.finalize()));
        #[cfg(feature = "dudect")]
        {
            let mut d = Sha256::new();
            let mut rb = [0u8; 64];
            for (i, b) in rb.iter_mut().enumerate() {
                *b = (i as u8).wrapping_mul(7);
            }
            // a draw for which constant-time test mode keeps z inside the encodable range is not
            // guaranteed; the transcript is only compared among release-profile builds
            if let Ok(s) = ps::dudect_keygen_sign_with_rng(&mut Script { buf: rb, pos: 0 }, &[1, 2, 3]) {
                d.update(s);
            }
            println!("DUDECT {} {}", $name, hex(&d.finalize()));
        }
        #[cfg(feature = "default-rng")]
        {
            let ok = (|| -> Result<bool, &'static str> {
                let (pk, sk) = ps::try_keygen()?;
                let (pk2, _sk2) = ps::KG::try_keygen()?;
                let s1 = sk.try_sign(&[1, 2, 3], &[4])?;
                let s2 = sk.try_hash_sign(&[1, 2, 3], &[4], &Ph::SHA512)?;
                Ok(pk.verify(&[1, 2, 3], &s1, &[4]) && pk.hash_verify(&[1, 2, 3], &s2, &[4], &Ph::SHA512) && pk.clone().into_bytes() != pk2.clone().into_bytes() && !pk2.verify(&[1, 2, 3], &s1, &[4]))
            })();
            println!("OSRNG {} {}", $name, if ok == Ok(true) { "ok" } else { "FAIL" });
        }
    }};
}

fn main() {
    #[cfg(feature = "ml-dsa-44")]
    kat!(ml_dsa_44, "44");
    #[cfg(feature = "ml-dsa-65")]
    kat!(ml_dsa_65, "65");
    #[cfg(feature = "ml-dsa-87")]
    kat!(ml_dsa_87, "87");
}
