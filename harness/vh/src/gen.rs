//! Workload generators: message/context shapes, hostile private keys, degenerate-key forgeries,
//! hint-section malformations. All built with the reference model, never with the crate.

use crate::util::Prng;
use refimpl as r;
use refimpl::{Mode, Params, Poly};

// ---------------------------------------------------------------------------------------------
// Messages and contexts (DESIGN 3.5)
// ---------------------------------------------------------------------------------------------

/// Message lengths that straddle SHAKE256 rate (136) and SHA-2 block boundaries for the
/// tr(64) || dom(1) || len(1) || ctx || M absorb, plus small and large ones.
pub fn message_lengths(ctx_len: usize, thorough: bool) -> Vec<usize> {
    let pre = 64 + 2 + ctx_len;
    let mut v = vec![0usize, 1, 2, 8, 31, 32, 33, 55, 56, 63, 64, 65, 111, 112, 127, 128, 129, 135, 136, 137, 4096];
    for rate_mult in 1..=3usize {
        let target = 136 * rate_mult;
        if target >= pre {
            for d in [-1i64, 0, 1] {
                let l = target as i64 - pre as i64 + d;
                if l >= 0 {
                    v.push(l as usize);
                }
            }
        }
    }
    if thorough {
        v.push(65_537);
        v.push(1 << 20);
    }
    v.sort_unstable();
    v.dedup();
    v
}

/// Message lengths just past buffer-sized boundaries (4 KiB .. 1 MiB, and a non-power-of-two multiple of
/// 64 KiB): code that absorbs a message in pieces shows itself only beyond its piece size.
pub fn long_message_lengths(g: &mut Prng) -> Vec<usize> {
    let mut v = Vec::new();
    for base in [1usize << 12, 1 << 14, 1 << 16, 1 << 17, 1 << 18, 3 << 16, 1 << 20] {
        v.push(base + 1 + g.below(300) as usize);
    }
    v
}

pub fn message(g: &mut Prng, len: usize) -> Vec<u8> {
    match g.below(8) {
        0 => vec![0u8; len],
        1 => vec![0xFFu8; len],
        _ => g.bytes(len),
    }
}

pub const CTX_LENGTHS: [usize; 9] = [0, 1, 2, 11, 127, 128, 254, 255, 64];

/// Context contents: random, all-zero, all-FF, or imitating a domain/length prefix or an OID.
pub fn context(g: &mut Prng, len: usize) -> Vec<u8> {
    let mut c = match g.below(6) {
        0 => vec![0u8; len],
        1 => vec![0xFFu8; len],
        _ => g.bytes(len),
    };
    match g.below(6) {
        0 if len >= 2 => {
            c[0] = g.below(2) as u8; // looks like a domain byte
            c[1] = (len - 2) as u8; // looks like a length byte
        }
        1 if len >= 11 => {
            let oid = r::oid(*g.pick(&[Mode::Sha256, Mode::Sha512, Mode::Shake128]));
            c[..11].copy_from_slice(&oid);
        }
        _ => {}
    }
    c
}

pub fn rnd_class(g: &mut Prng) -> [u8; 32] {
    match g.below(8) {
        0 => [0u8; 32],
        1 => [0xFFu8; 32],
        _ => g.arr32(),
    }
}

// ---------------------------------------------------------------------------------------------
// Private keys (DESIGN 3.3)
// ---------------------------------------------------------------------------------------------

#[derive(Debug, Clone, Copy, PartialEq, Eq)]
pub enum SPat {
    AllMinus,
    AllPlus,
    Alternating,
    Random,
    Zero,
    /// every polynomial vanishes at one NTT point or on one aligned group of 16 (constructed, in range)
    NttSparse,
}
#[derive(Debug, Clone, Copy, PartialEq, Eq)]
pub enum T0Pat {
    AllTop,       // +2^12   (field value 0)
    AllBottom,    // -2^12+1 (field value 8191)
    RandomExtremes,
    Random,
    Zero,
    /// the given percentage of coefficients at a random range extreme, the rest uniformly random
    PartialExtremes(u8),
    /// every polynomial vanishes at one NTT point or on one aligned group of 16 (constructed, in range)
    NttSparse,
    /// one to three monomials per polynomial with small special values (+-1, +-2, +-(beta-1), +-beta, +-(beta+1),
    /// +-2beta for every beta in use): c*t0 then takes these exact values at tau positions per monomial, so
    /// comparisons of c*t0 coefficients against small thresholds meet their boundaries constantly
    SparseSmall,
}

pub fn s_poly(g: &mut Prng, eta: i64, pat: SPat) -> Poly {
    if pat == SPat::NttSparse {
        return ntt_sparse_poly(g, -eta, eta);
    }
    core::array::from_fn(|i| match pat {
        SPat::AllMinus => -eta,
        SPat::AllPlus => eta,
        SPat::Alternating => if i % 2 == 0 { eta } else { -eta },
        SPat::Random => g.range(-eta, eta),
        SPat::Zero => 0,
        SPat::NttSparse => unreachable!(),
    })
}

pub fn t0_poly(g: &mut Prng, pat: T0Pat) -> Poly {
    let top = 1i64 << 12;
    if pat == T0Pat::NttSparse {
        return ntt_sparse_poly(g, -top + 1, top);
    }
    if pat == T0Pat::SparseSmall {
        let vals: [i64; 16] = [1, 2, 77, 78, 79, 80, 119, 120, 121, 156, 157, 195, 196, 197, 240, 392];
        let mut f = r::ZERO;
        for _ in 0..1 + g.below(3) {
            let v = *g.pick(&vals);
            f[g.below(256) as usize] = if g.below(2) == 0 { v } else { -v };
        }
        return f;
    }
    core::array::from_fn(|_| match pat {
        T0Pat::AllTop => top,
        T0Pat::AllBottom => -top + 1,
        T0Pat::RandomExtremes => if g.below(2) == 0 { top } else { -top + 1 },
        T0Pat::Random => g.range(-top + 1, top),
        T0Pat::Zero => 0,
        T0Pat::PartialExtremes(pc) => {
            if g.below(100) < u64::from(pc) {
                if g.below(2) == 0 { top } else { -top + 1 }
            } else {
                g.range(-top + 1, top)
            }
        }
        T0Pat::NttSparse | T0Pat::SparseSmall => unreachable!(),
    })
}

/// A structure-aware private-key encoding with every s1/s2 field in range (so deserialisation
/// must accept it) but otherwise arbitrary: rho, K, tr free, t0 unrelated to (rho, s1, s2).
pub fn hostile_sk(g: &mut Prng, p: &Params, sp: SPat, tp: T0Pat) -> Vec<u8> {
    let pick32 = |g: &mut Prng| match g.below(5) {
        0 => vec![0u8; 32],
        1 => vec![0xFFu8; 32],
        _ => g.bytes(32),
    };
    let rho = pick32(g);
    let key = pick32(g);
    let tr = match g.below(5) {
        0 => vec![0u8; 64],
        1 => vec![0xFFu8; 64],
        _ => g.bytes(64),
    };
    let s1: Vec<Poly> = (0..p.l).map(|_| s_poly(g, p.eta, sp)).collect();
    let s2: Vec<Poly> = (0..p.k).map(|_| s_poly(g, p.eta, sp)).collect();
    let t0: Vec<Poly> = (0..p.k).map(|_| t0_poly(g, tp)).collect();
    r::sk_encode(p, &rho, &key, &tr, &s1, &s2, &t0)
}

pub fn eta_bits(p: &Params) -> usize { r::bitlen(2 * p.eta) }

/// Overwrite the raw bit-field of coefficient `coeff` of short-vector polynomial `poly`
/// (0..l = s1, l..l+k = s2) in an sk encoding. raw = eta - value.
pub fn set_eta_field(p: &Params, sk: &mut [u8], poly: usize, coeff: usize, raw: u8) {
    let c = eta_bits(p);
    let base_bit = (128 + poly * 32 * c) * 8 + coeff * c;
    for b in 0..c {
        let bit = (raw >> b) & 1;
        let pos = base_bit + b;
        sk[pos / 8] = (sk[pos / 8] & !(1 << (pos % 8))) | (bit << (pos % 8));
    }
}

pub fn get_eta_field(p: &Params, sk: &[u8], poly: usize, coeff: usize) -> u8 {
    let c = eta_bits(p);
    let base_bit = (128 + poly * 32 * c) * 8 + coeff * c;
    let mut v = 0u8;
    for b in 0..c {
        let pos = base_bit + b;
        v |= ((sk[pos / 8] >> (pos % 8)) & 1) << b;
    }
    v
}

// ---------------------------------------------------------------------------------------------
// Degenerate-key forgeries (DESIGN 3.1)
// ---------------------------------------------------------------------------------------------

/// pk = rho || pkEncode(t1 = 0)
pub fn degenerate_pk(p: &Params, rho: &[u8]) -> Vec<u8> {
    let t1 = vec![r::ZERO; p.k];
    r::pk_encode(rho, &t1)
}

/// Build sigma = sigEncode(c~, z, h) with c~ = H(mu || w1Encode(UseHint(h, A z))) for the
/// degenerate key: FIPS 204 Verify accepts it iff ||z|| < gamma1 - beta (h is well-formed here).
/// z coefficients must lie in [-gamma1+1, gamma1]. `hint_bytes` overrides the encoded hint section
/// (to plant malformed encodings that a lenient decoder would read as `h`).
pub fn forge_degenerate(
    p: &Params, rho: &[u8], m_prime: &[u8], z: &[Poly], h: &[Poly], hint_bytes: Option<&[u8]>,
) -> Vec<u8> {
    let pk = degenerate_pk(p, rho);
    let tr = r::h(&[&pk], 64);
    let mu = r::h(&[&tr, m_prime], 64);
    let t1 = vec![r::ZERO; p.k];
    let wa = r::w_approx(p, rho, &t1, &r::ZERO, z);
    let w1: Vec<Poly> =
        (0..p.k).map(|i| core::array::from_fn(|n| r::use_hint(p.gamma2, h[i][n], wa[i][n]))).collect();
    let c_tilde = r::h(&[&mu, &r::w1_encode(p, &w1)], p.lambda / 4);
    let mut sig = r::sig_encode(p, &c_tilde, z, h);
    if let Some(hb) = hint_bytes {
        let off = p.sig_len - (p.omega + p.k);
        sig[off..].copy_from_slice(hb);
    }
    sig
}

/// As forge_degenerate, but for an explicitly given message representative mu (to build signatures that
/// are valid under a *wrong* model of how mu is derived).
pub fn forge_degenerate_mu(p: &Params, rho: &[u8], mu: &[u8], z: &[Poly], h: &[Poly]) -> Vec<u8> {
    let t1 = vec![r::ZERO; p.k];
    let wa = r::w_approx(p, rho, &t1, &r::ZERO, z);
    let w1: Vec<Poly> =
        (0..p.k).map(|i| core::array::from_fn(|n| r::use_hint(p.gamma2, h[i][n], wa[i][n]))).collect();
    let c_tilde = r::h(&[mu, &r::w1_encode(p, &w1)], p.lambda / 4);
    r::sig_encode(p, &c_tilde, z, h)
}

/// Response vector with small random coefficients and one planted coefficient.
pub fn z_with_spike(g: &mut Prng, p: &Params, poly: usize, coeff: usize, value: i64, small: i64) -> Vec<Poly> {
    let mut z: Vec<Poly> = (0..p.l).map(|_| core::array::from_fn(|_| g.range(-small, small))).collect();
    z[poly][coeff] = value;
    z
}

/// Random hint with exactly `weight` ones, distributed by `layout`:
/// 0 = spread uniformly, 1 = all in the last polynomial (as far as 256 allows), 2 = all in first
pub fn hint_with_weight(g: &mut Prng, p: &Params, weight: usize, layout: u64) -> Vec<Poly> {
    let mut h = vec![r::ZERO; p.k];
    let mut placed = 0;
    let mut guard = 0;
    while placed < weight {
        guard += 1;
        assert!(guard < 1_000_000);
        let i = match layout {
            1 => p.k - 1,
            2 => 0,
            _ => g.below(p.k as u64) as usize,
        };
        let j = match g.below(8) {
            0 => 0,
            1 => 255,
            _ => g.below(256) as usize,
        };
        if h[i][j] == 0 {
            h[i][j] = 1;
            placed += 1;
        }
    }
    h
}

// ---------------------------------------------------------------------------------------------
// Hint-section malformations (C02 (d), C08)
// ---------------------------------------------------------------------------------------------

#[derive(Debug, Clone, Copy, PartialEq, Eq)]
pub enum HintMal {
    /// non-zero byte in an unused index position
    Padding,
    /// one index repeated inside a polynomial
    Duplicate,
    /// two adjacent indices of one polynomial swapped (descending)
    Swap,
    /// a cumulative count lower than its predecessor
    CountDecrease,
    /// a cumulative count above omega
    CountOverOmega,
    /// last count byte 255
    Count255,
    /// a cumulative count of exactly 0 after a non-zero one
    CountZero,
}

pub const HINT_MALS: [HintMal; 7] = [
    HintMal::Padding,
    HintMal::Duplicate,
    HintMal::Swap,
    HintMal::CountDecrease,
    HintMal::CountOverOmega,
    HintMal::Count255,
    HintMal::CountZero,
];

/// Apply a malformation to a *valid* hint section `y` (length omega + k). Returns None when the
/// section has no room for this class (e.g. no polynomial with two indices).
pub fn malform_hint(g: &mut Prng, p: &Params, y: &[u8], mal: HintMal) -> Option<Vec<u8>> {
    let omega = p.omega;
    let k = p.k;
    let mut out = y.to_vec();
    let counts: Vec<usize> = (0..k).map(|i| usize::from(y[omega + i])).collect();
    let total = counts[k - 1];
    let bounds = |i: usize| -> (usize, usize) { (if i == 0 { 0 } else { counts[i - 1] }, counts[i]) };
    match mal {
        HintMal::Padding => {
            if total >= omega {
                return None;
            }
            let pos = total + g.below((omega - total) as u64) as usize;
            out[pos] = 1 + g.below(255) as u8;
        }
        HintMal::Duplicate | HintMal::Swap => {
            let cands: Vec<usize> = (0..k).filter(|&i| bounds(i).1 - bounds(i).0 >= 2).collect();
            if cands.is_empty() {
                return None;
            }
            let i = *g.pick(&cands);
            let (lo, hi) = bounds(i);
            let pos = lo + g.below((hi - lo - 1) as u64) as usize;
            if mal == HintMal::Duplicate {
                // either copy the earlier index up or the later index down (the latter can repeat the
                // largest index of the polynomial, e.g. [.., 255, 255])
                if g.below(2) == 0 {
                    out[pos + 1] = out[pos];
                } else {
                    out[pos] = out[pos + 1];
                }
            } else {
                out.swap(pos, pos + 1);
            }
        }
        HintMal::CountDecrease => {
            let cands: Vec<usize> = (1..k).filter(|&i| counts[i - 1] > 0).collect();
            if cands.is_empty() {
                return None;
            }
            let i = *g.pick(&cands);
            out[omega + i] = (counts[i - 1] - 1) as u8;
        }
        HintMal::CountOverOmega => {
            let i = g.below(k as u64) as usize;
            out[omega + i] = (omega + 1 + g.below((254 - omega) as u64) as usize) as u8;
        }
        HintMal::Count255 => {
            out[omega + k - 1] = 255;
        }
        HintMal::CountZero => {
            let cands: Vec<usize> = (1..k).filter(|&i| counts[i - 1] > 0).collect();
            if cands.is_empty() {
                return None;
            }
            let i = *g.pick(&cands);
            out[omega + i] = 0;
        }
    }
    if out == y {
        return None;
    }
    Some(out)
}

/// Bit flip helper
pub fn flip_bit(b: &mut [u8], bit: usize) { b[bit / 8] ^= 1 << (bit % 8); }


/// Hint sections whose bytes ascend through the index area *and* the count area (so a decoder that
/// trusts a count before bounding it keeps walking), with counts above omega.
pub fn ascending_hint_sections(g: &mut Prng, p: &Params) -> Vec<Vec<u8>> {
    let n = p.omega + p.k;
    let mut out = Vec::new();
    // y[j] = j + d
    for d in [0usize, 1, 100, 255 - (n - 1)] {
        out.push((0..n).map(|j| (j + d).min(255) as u8).collect());
    }
    // ascending indices, every count 255
    let mut y: Vec<u8> = (0..n).map(|j| j as u8).collect();
    for c in y[p.omega..].iter_mut() {
        *c = 255;
    }
    out.push(y);
    // ascending indices, first count omega (valid), later counts omega+1.. (ascending, too large)
    let mut y: Vec<u8> = (0..n).map(|j| j as u8).collect();
    for (i, c) in y[p.omega..].iter_mut().enumerate() {
        *c = (p.omega + i) as u8;
    }
    out.push(y);
    // random strictly increasing byte string over the whole section
    for _ in 0..3 {
        let mut vals: Vec<u8> = Vec::new();
        let mut cur = g.below(256 - n as u64) as usize;
        for _ in 0..n {
            vals.push(cur.min(255) as u8);
            cur += 1 + (g.below(2) as usize) * usize::from(cur + n < 250);
        }
        out.push(vals);
    }
    out
}


/// An accepted private key (all s1/s2 fields in range) constructed so that coefficient `n` of row `k` of
/// t = A*s1 + s2 wraps before reduction: A*s1 lands within eta of q (`high`) or of 0 (`!high`) and s2
/// pushes it across. Two coefficients of s1 are solved for (meet in the middle over all single-
/// coefficient changes). Returns None if no pair exists for this random base.
pub fn wrap_sk(g: &mut Prng, p: &Params, k: usize, n: usize, high: bool) -> Option<Vec<u8>> {
    use std::collections::HashMap;
    let q = r::Q;
    let rho = g.bytes(32);
    let key = g.bytes(32);
    let tr = g.bytes(64);
    let mut s1: Vec<Poly> = (0..p.l).map(|_| s_poly(g, p.eta, SPat::Random)).collect();
    let mut s2: Vec<Poly> = (0..p.k).map(|_| s_poly(g, p.eta, SPat::Random)).collect();
    let t0: Vec<Poly> = (0..p.k).map(|_| t0_poly(g, T0Pat::Random)).collect();
    let a_hat = r::expand_a(p, &rho);
    let a_row: Vec<Poly> = a_hat[k].iter().map(r::ntt_inv).collect();
    let s1_hat: Vec<Poly> = s1.iter().map(r::ntt).collect();
    let w = r::ntt_inv(&r::matrix_vector_ntt(&a_hat, &s1_hat)[k]);
    // all single-coefficient changes (j, m, e): s1[j][m] += e stays in range; effect on w[n]
    let mut deltas: Vec<(usize, usize, i64, i64)> = Vec::new();
    for j in 0..p.l {
        for m in 0..256usize {
            let c = if n >= m { a_row[j][n - m] } else { (q - a_row[j][n + 256 - m]) % q };
            for e in -2 * p.eta..=2 * p.eta {
                if e == 0 {
                    continue;
                }
                let nv = s1[j][m] + e;
                if nv < -p.eta || nv > p.eta {
                    continue;
                }
                deltas.push((j, m, e, (e * c).rem_euclid(q)));
            }
        }
    }
    let mut by_val: HashMap<i64, usize> = HashMap::new();
    for (i, d) in deltas.iter().enumerate() {
        let _ = by_val.entry(d.3).or_insert(i);
    }
    // target residues for A*s1 at (k, n)
    let targets: Vec<i64> = if high { (q - p.eta..q).collect() } else { (0..p.eta).collect() };
    for (i1, d1) in deltas.iter().enumerate() {
        for &t in &targets {
            let need = (t - w[n] - d1.3).rem_euclid(q);
            if let Some(&i2) = by_val.get(&need) {
                let d2 = deltas[i2];
                if i2 == i1 || (d2.0 == d1.0 && d2.1 == d1.1) {
                    continue;
                }
                s1[d1.0][d1.1] += d1.2;
                s1[d2.0][d2.1] += d2.2;
                // s2 pushes the sum across the boundary
                s2[k][n] = if high { p.eta } else { -p.eta };
                // confirm with the reference
                let s1h: Vec<Poly> = s1.iter().map(r::ntt).collect();
                let w2 = r::ntt_inv(&r::matrix_vector_ntt(&a_hat, &s1h)[k]);
                let raw = w2[n] + s2[k][n];
                if (high && raw >= q) || (!high && raw < 0) {
                    return Some(r::sk_encode(p, &rho, &key, &tr, &s1, &s2, &t0));
                }
                return None;
            }
        }
    }
    None
}


// ---------------------------------------------------------------------------------------------
// polynomials with a prescribed zero run in the NTT domain
// ---------------------------------------------------------------------------------------------

/// A polynomial with coefficients in [lo, hi] whose NTT (Algorithm 41 output order) is zero on the aligned
/// group of 16 coefficients [16k, 16k + 16) and (with overwhelming probability) non-zero elsewhere.
///
/// X^256 + 1 splits into sixteen factors X^16 - r_k; NTT group k holds the residues modulo X^16 - r_k.
/// f = sum_j X^j F_j(X^16) vanishes there iff F_j(r_k) = 0 (mod q) for every j. For each of `classes`
/// residue classes j the coefficients a_1..a_15 of F_j are drawn uniformly from [lo, hi] and a_0 is
/// solved for; the draw is repeated until a_0 falls into the range too (probability (hi-lo+1)/q).
/// The other classes stay zero.
pub fn poly_zero_ntt_group(g: &mut Prng, lo: i64, hi: i64, k: usize, classes: usize) -> Poly {
    assert!(k < 16 && (1..=16).contains(&classes));
    let mut x16 = r::ZERO;
    x16[16] = 1;
    let rk = r::ntt(&x16)[16 * k];
    let mut pw = [1i64; 16];
    for i in 1..16 {
        pw[i] = pw[i - 1] * rk % r::Q;
    }
    let span = (hi - lo + 1) as u64;
    let mut f = r::ZERO;
    for j in 0..classes {
        loop {
            let mut a = [0i64; 16];
            let mut acc = 0i64;
            for i in 1..16 {
                a[i] = lo + g.below(span) as i64;
                acc = (acc + a[i] * pw[i]).rem_euclid(r::Q);
            }
            // a_0 = -acc (mod q), represented in (-q/2, q/2]
            let mut a0 = (r::Q - acc) % r::Q;
            if a0 > r::Q / 2 {
                a0 -= r::Q;
            }
            if a0 >= lo && a0 <= hi {
                a[0] = a0;
                for i in 0..16 {
                    f[16 * i + j] = a[i];
                }
                break;
            }
        }
    }
    let fh = r::ntt(&f);
    debug_assert!(fh[16 * k..16 * k + 16].iter().all(|&c| c == 0));
    f
}


/// A dense polynomial with coefficients in [lo, hi] that vanishes at the NTT point of output slot `slot`
/// (Algorithm 41 order): f(root) = 0 (mod q), every other NTT coefficient non-zero with overwhelming
/// probability. Random walk: one coefficient is redrawn per step (the weighted sum is updated in O(1))
/// until the constant coefficient that cancels the sum falls into the range (probability (hi-lo+1)/q).
pub fn poly_zero_ntt_slot(g: &mut Prng, lo: i64, hi: i64, slot: usize) -> Poly {
    let mut x1 = r::ZERO;
    x1[1] = 1;
    let root = r::ntt(&x1)[slot];
    let mut pw = [1i64; 256];
    for i in 1..256 {
        pw[i] = pw[i - 1] * root % r::Q;
    }
    let span = (hi - lo + 1) as u64;
    let mut f = r::ZERO;
    let mut acc = 0i64;
    for i in 1..256 {
        f[i] = lo + g.below(span) as i64;
        acc = (acc + f[i] * pw[i]).rem_euclid(r::Q);
    }
    loop {
        let mut a0 = (r::Q - acc) % r::Q;
        if a0 > r::Q / 2 {
            a0 -= r::Q;
        }
        if a0 >= lo && a0 <= hi {
            f[0] = a0;
            break;
        }
        let j = 1 + g.below(255) as usize;
        let new = lo + g.below(span) as i64;
        acc = (acc + (new - f[j]) * pw[j]).rem_euclid(r::Q);
        f[j] = new;
    }
    debug_assert_eq!(r::ntt(&f)[slot], 0);
    f
}

/// One of: zero at a single NTT slot (first, last, random) or on an aligned group of 16 slots.
pub fn ntt_sparse_poly(g: &mut Prng, lo: i64, hi: i64) -> Poly {
    match g.below(4) {
        0 => poly_zero_ntt_slot(g, lo, hi, 0),
        1 => poly_zero_ntt_slot(g, lo, hi, 255),
        2 => {
            let s = g.below(256) as usize;
            poly_zero_ntt_slot(g, lo, hi, s)
        }
        _ => {
            let k = g.below(16) as usize;
            let classes = if hi - lo < 16 { 2 } else { 16 };
            poly_zero_ntt_group(g, lo, hi, k, classes)
        }
    }
}


/// Polynomials with arithmetic structure in the coefficient domain, which turns into repetition in the
/// NTT domain: f(X^(2^j)) (non-zero only at multiples of 2^j: its NTT consists of blocks of 2^j equal
/// values), single monomials, and constant-coefficient polynomials. All coefficients within [lo, hi].
pub fn structured_polys(g: &mut Prng, lo: i64, hi: i64) -> Vec<(String, Poly)> {
    let mut out = Vec::new();
    let nz = |g: &mut Prng| -> i64 {
        loop {
            let v = g.range(lo, hi);
            if v != 0 {
                return v;
            }
        }
    };
    for j in 1..=8u32 {
        let stride = 1usize << j;
        let mut f = r::ZERO;
        let mut i = 0;
        while i < 256 {
            f[i] = nz(g);
            i += stride;
        }
        out.push((format!("polynomial in X^{stride}"), f));
    }
    for e in [0usize, 1, 16, 255] {
        let mut f = r::ZERO;
        f[e] = nz(g);
        out.push((format!("monomial X^{e}"), f));
    }
    for v in [hi, lo, 1i64.clamp(lo, hi)] {
        if v != 0 {
            out.push((format!("all coefficients {v}"), [v; 256]));
        }
    }
    out
}


/// t0 vector for a given beta: every polynomial is one to three monomials whose values are +-1, +-(beta-1),
/// +-beta, +-(beta+1), +-(beta+2), +-2beta, +-(2beta+1), +-(2beta+2) (see T0Pat::SparseSmall)
pub fn t0_sparse_small(g: &mut Prng, p: &Params) -> Vec<Poly> {
    let b = p.beta;
    let vals = [1, b - 1, b, b + 1, b + 2, 2 * b, 2 * b + 1, 2 * b + 2];
    (0..p.k)
        .map(|_| {
            let mut f = r::ZERO;
            for _ in 0..1 + g.below(3) {
                let v = *g.pick(&vals);
                f[g.below(256) as usize] = if g.below(2) == 0 { v } else { -v };
            }
            f
        })
        .collect()
}
