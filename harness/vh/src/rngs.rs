//! RNG monitors: a recording/replaying generator and a fault-injecting generator.

use rand_core::{CryptoRng, Error, RngCore};
use std::num::NonZeroU32;

#[derive(Debug, Clone, PartialEq, Eq)]
pub enum Call {
    TryFill(usize),
    Fill(usize),
    NextU32,
    NextU64,
}

/// Serves bytes from a script and logs every request the library makes.
pub struct RecordingRng {
    pub script: Vec<u8>,
    pub pos: usize,
    pub log: Vec<Call>,
    /// strict: the infallible methods panic (the library must use only try_fill_bytes)
    pub strict: bool,
    pub underrun: bool,
}

impl RecordingRng {
    pub fn new(script: &[u8]) -> RecordingRng {
        RecordingRng { script: script.to_vec(), pos: 0, log: Vec::new(), strict: false, underrun: false }
    }
    pub fn strict(script: &[u8]) -> RecordingRng {
        let mut r = RecordingRng::new(script);
        r.strict = true;
        r
    }
    fn serve(&mut self, out: &mut [u8]) {
        for b in out.iter_mut() {
            if self.pos < self.script.len() {
                *b = self.script[self.pos];
            } else {
                self.underrun = true;
                *b = 0xA5;
            }
            self.pos += 1;
        }
    }
    pub fn only_try_fill_32(&self, n: usize) -> bool {
        self.log.len() == n && self.log.iter().all(|c| *c == Call::TryFill(32))
    }
}

impl RngCore for RecordingRng {
    fn next_u32(&mut self) -> u32 {
        self.log.push(Call::NextU32);
        assert!(!self.strict, "RecordingRng: infallible next_u32 used");
        let mut b = [0u8; 4];
        self.serve(&mut b);
        u32::from_le_bytes(b)
    }
    fn next_u64(&mut self) -> u64 {
        self.log.push(Call::NextU64);
        assert!(!self.strict, "RecordingRng: infallible next_u64 used");
        let mut b = [0u8; 8];
        self.serve(&mut b);
        u64::from_le_bytes(b)
    }
    fn fill_bytes(&mut self, out: &mut [u8]) {
        self.log.push(Call::Fill(out.len()));
        assert!(!self.strict, "RecordingRng: infallible fill_bytes used");
        self.serve(out);
    }
    fn try_fill_bytes(&mut self, out: &mut [u8]) -> Result<(), Error> {
        self.log.push(Call::TryFill(out.len()));
        self.serve(out);
        Ok(())
    }
}
impl CryptoRng for RecordingRng {}

#[derive(Debug, Clone, Copy, PartialEq, Eq)]
pub enum FaultKind {
    /// error returned, buffer untouched
    Before,
    /// first k bytes written with real data, rest poisoned with 0xEE, then error
    AfterPartial(usize),
    /// whole buffer written with real data, then error anyway
    AfterFull,
}

/// Fails the n-th try_fill_bytes request (0-based). Infallible methods panic with a marker.
pub struct FaultRng {
    pub inner: RecordingRng,
    pub fail_at: usize,
    pub kind: FaultKind,
    pub requests: usize,
    pub fired: bool,
    /// the rand_core error code reported by the failing request (values below 2^31 read as OS errnos)
    pub code: u32,
}

/// Error codes a generator may report: rand_core custom / internal codes, and raw OS errnos including the
/// "transient" ones (EINTR 4, EAGAIN 11 / 35) that retry loops like to swallow.
#[cfg(not(feature = "rngstd"))]
pub const FAULT_CODES: [u32; 10] = [Error::CUSTOM_START + 7, Error::INTERNAL_START + 1, 1, 4, 5, 11, 35, 38, (1 << 31) - 1, u32::MAX];
/// with rand_core/std: 0 stands for a boxed error that has no code at all
#[cfg(feature = "rngstd")]
pub const FAULT_CODES: [u32; 11] = [Error::CUSTOM_START + 7, 0, Error::INTERNAL_START + 1, 1, 4, 5, 11, 35, 38, (1 << 31) - 1, u32::MAX];

impl FaultRng {
    pub fn new(script: &[u8], fail_at: usize, kind: FaultKind) -> FaultRng {
        FaultRng { inner: RecordingRng::new(script), fail_at, kind, requests: 0, fired: false, code: Error::CUSTOM_START + 7 }
    }
    pub fn with_code(mut self, code: u32) -> FaultRng {
        self.code = code;
        self
    }
}

pub const INFALLIBLE_MARKER: &str = "FaultRng: infallible method used";

impl RngCore for FaultRng {
    fn next_u32(&mut self) -> u32 { panic!("{}", INFALLIBLE_MARKER) }
    fn next_u64(&mut self) -> u64 { panic!("{}", INFALLIBLE_MARKER) }
    fn fill_bytes(&mut self, _out: &mut [u8]) { panic!("{}", INFALLIBLE_MARKER) }
    fn try_fill_bytes(&mut self, out: &mut [u8]) -> Result<(), Error> {
        let idx = self.requests;
        self.requests += 1;
        if idx == self.fail_at {
            self.fired = true;
            match self.kind {
                FaultKind::Before => {}
                FaultKind::AfterPartial(k) => {
                    let k = k.min(out.len());
                    self.inner.try_fill_bytes(&mut out[..k])?;
                    for b in out[k..].iter_mut() {
                        *b = 0xEE;
                    }
                }
                FaultKind::AfterFull => {
                    self.inner.try_fill_bytes(out)?;
                }
            }
            #[cfg(feature = "rngstd")]
            if self.code == 0 {
                // a boxed std error without a numeric code (what a failing OS generator reports under std)
                return Err(Error::new(std::io::Error::new(std::io::ErrorKind::Other, "FaultRng: boxed error without code")));
            }
            return Err(Error::from(NonZeroU32::new(self.code.max(1)).unwrap()));
        }
        self.inner.try_fill_bytes(out)
    }
}
impl CryptoRng for FaultRng {}
