//! Small utilities: PRNG, digests, parallel map, stage reports.

use serde_json::{json, Map, Value};
use sha2::{Digest, Sha256};
use std::collections::HashSet;
use std::sync::atomic::{AtomicUsize, Ordering};
use std::sync::Mutex;

/// xoshiro256** seeded through splitmix64: every random choice of a workload comes from here.
#[derive(Clone)]
pub struct Prng {
    s: [u64; 4],
}

impl Prng {
    pub fn new(seed: u64) -> Prng {
        let mut x = seed.wrapping_add(0x9E37_79B9_7F4A_7C15);
        let mut next = || {
            x = x.wrapping_add(0x9E37_79B9_7F4A_7C15);
            let mut z = x;
            z = (z ^ (z >> 30)).wrapping_mul(0xBF58_476D_1CE4_E5B9);
            z = (z ^ (z >> 27)).wrapping_mul(0x94D0_49BB_1331_11EB);
            z ^ (z >> 31)
        };
        Prng { s: [next(), next(), next(), next()] }
    }
    /// Independent stream for (seed, label, index)
    pub fn derive(seed: u64, label: &str, index: u64) -> Prng {
        let mut h = Sha256::new();
        h.update(seed.to_le_bytes());
        h.update(label.as_bytes());
        h.update(index.to_le_bytes());
        let d = h.finalize();
        Prng::new(u64::from_le_bytes(d[0..8].try_into().unwrap()))
    }
    pub fn next_u64(&mut self) -> u64 {
        let r = self.s[1].wrapping_mul(5).rotate_left(7).wrapping_mul(9);
        let t = self.s[1] << 17;
        self.s[2] ^= self.s[0];
        self.s[3] ^= self.s[1];
        self.s[1] ^= self.s[2];
        self.s[0] ^= self.s[3];
        self.s[2] ^= t;
        self.s[3] = self.s[3].rotate_left(45);
        r
    }
    pub fn below(&mut self, n: u64) -> u64 {
        if n == 0 {
            return 0;
        }
        self.next_u64() % n
    }
    pub fn range(&mut self, lo: i64, hi: i64) -> i64 { lo + self.below((hi - lo + 1) as u64) as i64 }
    pub fn fill(&mut self, b: &mut [u8]) {
        for chunk in b.chunks_mut(8) {
            let v = self.next_u64().to_le_bytes();
            chunk.copy_from_slice(&v[..chunk.len()]);
        }
    }
    pub fn bytes(&mut self, n: usize) -> Vec<u8> {
        let mut v = vec![0u8; n];
        self.fill(&mut v);
        v
    }
    pub fn arr32(&mut self) -> [u8; 32] {
        let mut v = [0u8; 32];
        self.fill(&mut v);
        v
    }
    pub fn pick<'a, T>(&mut self, xs: &'a [T]) -> &'a T { &xs[self.below(xs.len() as u64) as usize] }
    pub fn chance(&mut self, num: u64, den: u64) -> bool { self.below(den) < num }
}

pub fn digest64(parts: &[&[u8]]) -> u64 {
    let mut h = Sha256::new();
    for p in parts {
        h.update((p.len() as u64).to_le_bytes());
        h.update(p);
    }
    let d = h.finalize();
    u64::from_le_bytes(d[0..8].try_into().unwrap())
}

pub fn sha256_hex(b: &[u8]) -> String { refimpl::hex(&Sha256::digest(b)) }

pub fn hex(b: &[u8]) -> String { refimpl::hex(b) }
pub fn unhex(s: &str) -> Vec<u8> { refimpl::unhex(s) }

/// Hex for evidence samples: full when short, head..tail + sha256 when long
pub fn hex_short(b: &[u8]) -> String {
    if b.len() <= 48 {
        hex(b)
    } else {
        format!("{}..{} (len {}, sha256 {})", hex(&b[..16]), hex(&b[b.len() - 8..]), b.len(), &sha256_hex(b)[..16])
    }
}

/// Run `f(i)` for i in 0..n on `threads` workers with large stacks; results in index order.
pub fn par_map<T: Send, F: Fn(usize) -> T + Sync>(n: usize, f: F) -> Vec<T> {
    let threads = std::thread::available_parallelism().map(|x| x.get()).unwrap_or(4).min(n.max(1));
    let next = AtomicUsize::new(0);
    let out: Mutex<Vec<Option<T>>> = Mutex::new((0..n).map(|_| None).collect());
    std::thread::scope(|s| {
        for _ in 0..threads {
            std::thread::Builder::new()
                .stack_size(256 << 20)
                .spawn_scoped(s, || loop {
                    let i = next.fetch_add(1, Ordering::Relaxed);
                    if i >= n {
                        break;
                    }
                    let r = f(i);
                    out.lock().unwrap()[i] = Some(r);
                })
                .expect("spawn");
        }
    });
    out.into_inner().unwrap().into_iter().map(|x| x.expect("worker result")).collect()
}

/// One violation observed by a monitor.
#[derive(Clone, Debug)]
pub struct Violation {
    /// stable signature used to match known findings: "<kind>|<where>|<input class>"
    pub signature: String,
    pub detail: String,
    /// everything needed to re-run exactly this case
    pub replay: Value,
}

/// Per-shard accumulator; merged into a stage report.
#[derive(Default)]
pub struct Acc {
    pub evaluations: u64,
    pub distinct: HashSet<u64>,
    /// distinct cases counted by construction (enumeration index) rather than through the hash set
    pub distinct_enumerated: u64,
    pub samples: Vec<Value>,
    pub counters: Map<String, Value>,
    pub violations: Vec<Violation>,
    pub inconclusive: Vec<String>,
}

pub const MAX_SAMPLES: usize = 6;
pub const MAX_VIOLATIONS: usize = 400;
pub const MAX_PER_SIGNATURE: usize = 3;

impl Acc {
    pub fn new() -> Acc { Acc::default() }
    pub fn eval(&mut self) { self.evaluations += 1; }
    pub fn evals(&mut self, n: u64) { self.evaluations += n; }
    pub fn nontrivial(&mut self, d: u64) { let _ = self.distinct.insert(d); }
    pub fn sample(&mut self, v: Value) {
        if self.samples.len() < MAX_SAMPLES {
            self.samples.push(v);
        }
    }
    pub fn count(&mut self, key: &str, n: u64) {
        let e = self.counters.entry(key.to_string()).or_insert(json!(0u64));
        *e = json!(e.as_u64().unwrap_or(0) + n);
    }
    pub fn maxi(&mut self, key: &str, n: i64) {
        let e = self.counters.entry(key.to_string()).or_insert(json!(n));
        if e.as_i64().unwrap_or(i64::MIN) < n {
            *e = json!(n);
        }
    }
    pub fn mini(&mut self, key: &str, n: i64) {
        let e = self.counters.entry(key.to_string()).or_insert(json!(n));
        if e.as_i64().unwrap_or(i64::MAX) > n {
            *e = json!(n);
        }
    }
    pub fn get(&self, key: &str) -> u64 { self.counters.get(key).and_then(Value::as_u64).unwrap_or(0) }
    pub fn violation(&mut self, signature: &str, detail: String, replay: Value) {
        let same = self.violations.iter().filter(|v| v.signature == signature).count();
        if same >= MAX_PER_SIGNATURE {
            self.count("violations_beyond_per_signature_cap", 1);
            return;
        }
        if self.violations.len() < MAX_VIOLATIONS {
            self.violations.push(Violation { signature: signature.to_string(), detail, replay });
        } else {
            self.count("violations_not_listed", 1);
        }
    }
    pub fn inconclusive(&mut self, why: String) {
        if self.inconclusive.len() < 20 {
            self.inconclusive.push(why);
        }
    }
    pub fn merge(&mut self, other: Acc) {
        self.evaluations += other.evaluations;
        self.distinct.extend(other.distinct);
        self.distinct_enumerated += other.distinct_enumerated;
        for s in other.samples {
            self.sample(s);
        }
        for (k, v) in other.counters {
            if k.starts_with("max_") {
                self.maxi(&k, v.as_i64().unwrap_or(0));
            } else if k.starts_with("min_") {
                self.mini(&k, v.as_i64().unwrap_or(0));
            } else if let Some(n) = v.as_u64() {
                self.count(&k, n);
            } else {
                let _ = self.counters.insert(k, v);
            }
        }
        for v in other.violations {
            self.violation(&v.signature, v.detail, v.replay);
        }
        for i in other.inconclusive {
            self.inconclusive(i);
        }
    }
    pub fn merge_all(accs: Vec<Acc>) -> Acc {
        let mut a = Acc::new();
        for x in accs {
            a.merge(x);
        }
        a
    }
}

/// Serialise a stage report for bin/check.
pub fn stage_report(
    property: &str, stage: &str, build: &str, tier: &str, seed: u64, rule: &str, exhaustive: bool,
    acc: &Acc, wall_s: f64,
) -> Value {
    json!({
        "property_id": property,
        "stage": stage,
        "build": build,
        "tier": tier,
        "seed": seed,
        "rule": rule,
        "exhaustive": exhaustive,
        "evaluations": acc.evaluations,
        "distinct_nontrivial": acc.distinct.len() as u64 + acc.distinct_enumerated,
        "samples": acc.samples,
        "counters": acc.counters,
        "violations": acc.violations.iter().map(|v| json!({
            "signature": v.signature, "detail": v.detail, "replay": v.replay
        })).collect::<Vec<_>>(),
        "inconclusive": acc.inconclusive,
        "wall_s": wall_s,
    })
}
