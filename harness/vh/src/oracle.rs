//! Oracle validation: the reference model must reproduce all ACVP vectors (from /verif/fixtures,
//! not from /repo) and agree with its own schoolbook multiply before any verdict relies on it.

use crate::util::{unhex, Prng};
use refimpl as r;
use serde_json::Value;
use std::path::Path;

pub struct OracleReport {
    pub keygen: usize,
    pub siggen: usize,
    pub sigver: usize,
    pub ntt_products: usize,
}

fn load(dir: &Path, name: &str) -> Result<Value, String> {
    let p = dir.join(name);
    let s = std::fs::read_to_string(&p).map_err(|e| format!("{}: {e}", p.display()))?;
    serde_json::from_str(&s).map_err(|e| format!("{}: {e}", p.display()))
}

fn set_of(g: &Value) -> u32 {
    match g["parameterSet"].as_str().unwrap_or("") {
        "ML-DSA-44" => 44,
        "ML-DSA-65" => 65,
        "ML-DSA-87" => 87,
        other => panic!("unknown parameterSet {other}"),
    }
}

pub struct SigGenVec {
    pub set: u32,
    pub sk: Vec<u8>,
    pub message: Vec<u8>,
    pub rnd: [u8; 32],
    pub signature: Vec<u8>,
}
pub struct SigVerVec {
    pub set: u32,
    pub pk: Vec<u8>,
    pub message: Vec<u8>,
    pub signature: Vec<u8>,
    pub passed: bool,
    pub reason: String,
}
pub struct KeyGenVec {
    pub set: u32,
    pub seed: [u8; 32],
    pub pk: Vec<u8>,
    pub sk: Vec<u8>,
}

pub fn keygen_vectors(dir: &Path) -> Result<Vec<KeyGenVec>, String> {
    let v = load(dir, "keyGen.json")?;
    let mut out = Vec::new();
    for g in v["testGroups"].as_array().ok_or("testGroups")? {
        for t in g["tests"].as_array().ok_or("tests")? {
            out.push(KeyGenVec {
                set: set_of(g),
                seed: unhex(t["seed"].as_str().unwrap()).try_into().unwrap(),
                pk: unhex(t["pk"].as_str().unwrap()),
                sk: unhex(t["sk"].as_str().unwrap()),
            });
        }
    }
    Ok(out)
}

pub fn siggen_vectors(dir: &Path) -> Result<Vec<SigGenVec>, String> {
    let v = load(dir, "sigGen.json")?;
    let mut out = Vec::new();
    for g in v["testGroups"].as_array().ok_or("testGroups")? {
        for t in g["tests"].as_array().ok_or("tests")? {
            let rnd: [u8; 32] = match t["rnd"].as_str() {
                Some(s) => unhex(s).try_into().unwrap(),
                None => [0u8; 32],
            };
            out.push(SigGenVec {
                set: set_of(g),
                sk: unhex(t["sk"].as_str().unwrap()),
                message: unhex(t["message"].as_str().unwrap()),
                rnd,
                signature: unhex(t["signature"].as_str().unwrap()),
            });
        }
    }
    Ok(out)
}

pub fn sigver_vectors(dir: &Path) -> Result<Vec<SigVerVec>, String> {
    let v = load(dir, "sigVer.json")?;
    let mut out = Vec::new();
    for g in v["testGroups"].as_array().ok_or("testGroups")? {
        let pk = unhex(g["pk"].as_str().unwrap());
        for t in g["tests"].as_array().ok_or("tests")? {
            out.push(SigVerVec {
                set: set_of(g),
                pk: pk.clone(),
                message: unhex(t["message"].as_str().unwrap()),
                signature: unhex(t["signature"].as_str().unwrap()),
                passed: t["testPassed"].as_bool().unwrap(),
                reason: t["reason"].as_str().unwrap_or("").to_string(),
            });
        }
    }
    Ok(out)
}

/// Validate the reference. `full` = all 180 vectors; otherwise a fixed third of them (quick tier
/// of checks whose budget is small). Err means the oracle cannot be trusted -> inconclusive.
pub fn validate(fixtures: &Path, full: bool) -> Result<OracleReport, String> {
    let dir = fixtures.join("acvp");
    let kg = keygen_vectors(&dir)?;
    let sg = siggen_vectors(&dir)?;
    let sv = sigver_vectors(&dir)?;
    let stride = if full { 1 } else { 3 };
    let kg_idx: Vec<usize> = (0..kg.len()).step_by(stride).collect();
    let sg_idx: Vec<usize> = (0..sg.len()).step_by(stride).collect();
    let sv_idx: Vec<usize> = (0..sv.len()).collect();

    let kg_bad: Vec<String> = crate::util::par_map(kg_idx.len(), |i| {
        let t = &kg[kg_idx[i]];
        let p = r::params(t.set);
        let (pk, sk) = r::keygen_internal(p, &t.seed);
        if pk != t.pk || sk != t.sk { Some(format!("keyGen vector {} ({})", kg_idx[i], p.name)) } else { None }
    })
    .into_iter()
    .flatten()
    .collect();
    if !kg_bad.is_empty() {
        return Err(format!("reference fails ACVP {}", kg_bad[0]));
    }
    let sg_bad: Vec<String> = crate::util::par_map(sg_idx.len(), |i| {
        let t = &sg[sg_idx[i]];
        let p = r::params(t.set);
        let s = r::sign_internal(p, &t.sk, &t.message, &t.rnd);
        if s.as_deref() != Some(&t.signature[..]) { Some(format!("sigGen vector {} ({})", sg_idx[i], p.name)) } else { None }
    })
    .into_iter()
    .flatten()
    .collect();
    if !sg_bad.is_empty() {
        return Err(format!("reference fails ACVP {}", sg_bad[0]));
    }
    let sv_bad: Vec<String> = crate::util::par_map(sv_idx.len(), |i| {
        let t = &sv[sv_idx[i]];
        let p = r::params(t.set);
        let ok = r::verify_internal(p, &t.pk, &t.message, &t.signature);
        if ok != t.passed { Some(format!("sigVer vector {} ({}, {})", sv_idx[i], p.name, t.reason)) } else { None }
    })
    .into_iter()
    .flatten()
    .collect();
    if !sv_bad.is_empty() {
        return Err(format!("reference fails ACVP {}", sv_bad[0]));
    }

    // the reference's NTT against its own schoolbook multiply
    let n_prod = 64;
    let bad: Vec<usize> = crate::util::par_map(n_prod, |i| {
        let mut g = Prng::derive(0xACE, "oracle-ntt", i as u64);
        let a: r::Poly = core::array::from_fn(|_| g.range(0, r::Q - 1));
        let b: r::Poly = core::array::from_fn(|_| g.range(-(r::Q - 1), r::Q - 1));
        usize::from(r::ntt_mul(&a, &b) != r::schoolbook_mul(&a, &b))
    });
    if bad.iter().sum::<usize>() != 0 {
        return Err("reference NTT disagrees with schoolbook multiplication".into());
    }
    Ok(OracleReport { keygen: kg_idx.len(), siggen: sg_idx.len(), sigver: sv_idx.len(), ntt_products: n_prod })
}
