//! Uniform, byte-oriented view of the three parameter-set namespaces of the crate under test.
//! Key *objects* stay typed (so provenance — generated / deserialised / derived — is preserved);
//! everything else crosses the boundary as byte slices and plain coefficient arrays.

#![allow(deprecated)]

use fips204::traits::{KeyGen, SerDes, Signer, Verifier};
use fips204::verif_hooks as vhk;
use fips204::Ph;
use rand_core::CryptoRngCore;
use refimpl::{Mode, Params};

pub type P = [i32; 256];
pub type Res<T> = Result<T, &'static str>;

pub fn ph(mode: Mode) -> Ph {
    match mode {
        Mode::Sha256 => Ph::SHA256,
        Mode::Sha512 => Ph::SHA512,
        Mode::Shake128 => Ph::SHAKE128,
        Mode::Pure => panic!("no Ph for pure mode"),
    }
}

pub fn to_i64(p: &P) -> refimpl::Poly { core::array::from_fn(|i| i64::from(p[i])) }
pub fn to_i32(p: &refimpl::Poly) -> P { core::array::from_fn(|i| i32::try_from(p[i]).expect("fits i32")) }
pub fn v_to_i64(v: &[P]) -> Vec<refimpl::Poly> { v.iter().map(to_i64).collect() }
pub fn v_to_i32(v: &[refimpl::Poly]) -> Vec<P> { v.iter().map(to_i32).collect() }

pub trait PS: Sync + Send + 'static {
    type Pk: Clone + Send;
    type Sk: Clone + Send;
    const SET: u32;
    fn p() -> &'static Params { refimpl::params(Self::SET) }

    fn keygen_seed(xi: &[u8; 32]) -> (Self::Pk, Self::Sk);
    /// module-level `try_keygen_with_rng`
    fn keygen_rng<R: CryptoRngCore>(rng: &mut R) -> Res<(Self::Pk, Self::Sk)>;
    /// `KG::try_keygen_with_rng`
    fn keygen_rng_trait<R: CryptoRngCore>(rng: &mut R) -> Res<(Self::Pk, Self::Sk)>;
    fn keygen_os() -> Res<(Self::Pk, Self::Sk)>;
    fn keygen_os_trait() -> Res<(Self::Pk, Self::Sk)>;

    fn pk_from(b: &[u8]) -> Res<Self::Pk>;
    fn pk_bytes(pk: &Self::Pk) -> Vec<u8>;
    fn sk_from(b: &[u8]) -> Res<Self::Sk>;
    fn sk_bytes(sk: &Self::Sk) -> Vec<u8>;
    fn derive(sk: &Self::Sk) -> Self::Pk;

    fn sign<R: CryptoRngCore>(sk: &Self::Sk, rng: &mut R, m: &[u8], ctx: &[u8], mode: Mode) -> Res<Vec<u8>>;
    fn sign_os(sk: &Self::Sk, m: &[u8], ctx: &[u8], mode: Mode) -> Res<Vec<u8>>;
    fn verify(pk: &Self::Pk, m: &[u8], sig: &[u8], ctx: &[u8], mode: Mode) -> bool;
    fn internal_sign(sk: &Self::Sk, m: &[u8], ctx: &[u8], rnd: [u8; 32]) -> Res<Vec<u8>>;
    fn internal_verify(pk: &Self::Pk, m: &[u8], sig: &[u8], ctx: &[u8]) -> bool;
    /// `dudect_keygen_sign_with_rng`; only in harness builds with feature `dudect` (see HAS_DUDECT)
    fn dudect<R: CryptoRngCore>(rng: &mut R, m: &[u8]) -> Res<Vec<u8>>;
    const HAS_DUDECT: bool = cfg!(feature = "dudect");

    // ---- hooks with set-specific const generics ----
    fn h_sig_decode(sig: &[u8]) -> Res<(Vec<u8>, Vec<P>, Option<Vec<P>>)>;
    fn h_sig_encode(c: &[u8], z: &[P], h: &[P], ctest: bool) -> Vec<u8>;
    fn h_hint_unpack(y: &[u8]) -> Res<Vec<P>>;
    fn h_hint_pack(h: &[P], ctest: bool) -> Vec<u8>;
    fn h_pk_decode(pk: &[u8]) -> Res<(Vec<u8>, Vec<P>)>;
    fn h_pk_encode(rho: &[u8], t1: &[P]) -> Vec<u8>;
    fn h_sk_decode(sk: &[u8]) -> Res<(Vec<u8>, Vec<u8>, Vec<u8>, Vec<P>, Vec<P>, Vec<P>)>;
    fn h_sk_encode(rho: &[u8], key: &[u8], tr: &[u8], s1: &[P], s2: &[P], t0: &[P]) -> Vec<u8>;
    fn h_w1_encode(w1: &[P]) -> Vec<u8>;
    fn h_mat_vec_mul(a: &[Vec<P>], u: &[P]) -> Vec<P>;
    fn h_ntt_l(v: &[P]) -> Vec<P>;
    fn h_ntt_k(v: &[P]) -> Vec<P>;
    fn h_inv_ntt_l(v: &[P]) -> Vec<P>;
    fn h_inv_ntt_k(v: &[P]) -> Vec<P>;
    fn h_to_mont_l(v: &[P]) -> Vec<P>;
    fn h_to_mont_k(v: &[P]) -> Vec<P>;
    fn h_inf_norm_l(v: &[P]) -> i32;
    fn h_inf_norm_k(v: &[P]) -> i32;
    fn h_power2round_k(v: &[P]) -> (Vec<P>, Vec<P>);
    fn h_expand_a(rho: &[u8; 32], ctest: bool) -> Vec<Vec<P>>;
    fn h_expand_s(rho: &[u8; 64], ctest: bool) -> (Vec<P>, Vec<P>);
    fn h_expand_mask(rho: &[u8; 64], mu: u16) -> Vec<P>;
    fn h_sample_in_ball(rho: &[u8], ctest: bool) -> P;
}

fn arr<const N: usize>(v: &[P]) -> [P; N] {
    assert_eq!(v.len(), N, "vector length");
    core::array::from_fn(|i| v[i])
}

macro_rules! impl_set {
    ($name:ident, $m:ident, $set:expr, $k:expr, $l:expr, $ld4:expr, $eta:expr, $g1:expr, $g2:expr, $omega:expr, $tau:expr) => {
        pub struct $name;
        impl PS for $name {
            type Pk = fips204::$m::PublicKey;
            type Sk = fips204::$m::PrivateKey;
            const SET: u32 = $set;

            fn keygen_seed(xi: &[u8; 32]) -> (Self::Pk, Self::Sk) { fips204::$m::KG::keygen_from_seed(xi) }
            fn keygen_rng<R: CryptoRngCore>(rng: &mut R) -> Res<(Self::Pk, Self::Sk)> {
                fips204::$m::try_keygen_with_rng(rng)
            }
            fn keygen_rng_trait<R: CryptoRngCore>(rng: &mut R) -> Res<(Self::Pk, Self::Sk)> {
                fips204::$m::KG::try_keygen_with_rng(rng)
            }
            fn keygen_os() -> Res<(Self::Pk, Self::Sk)> { fips204::$m::try_keygen() }
            fn keygen_os_trait() -> Res<(Self::Pk, Self::Sk)> { fips204::$m::KG::try_keygen() }

            fn pk_from(b: &[u8]) -> Res<Self::Pk> {
                let a: [u8; fips204::$m::PK_LEN] = b.try_into().expect("pk length");
                fips204::$m::PublicKey::try_from_bytes(a)
            }
            fn pk_bytes(pk: &Self::Pk) -> Vec<u8> { pk.clone().into_bytes().to_vec() }
            fn sk_from(b: &[u8]) -> Res<Self::Sk> {
                let a: [u8; fips204::$m::SK_LEN] = b.try_into().expect("sk length");
                fips204::$m::PrivateKey::try_from_bytes(a)
            }
            fn sk_bytes(sk: &Self::Sk) -> Vec<u8> { sk.clone().into_bytes().to_vec() }
            fn derive(sk: &Self::Sk) -> Self::Pk { sk.get_public_key() }

            fn sign<R: CryptoRngCore>(sk: &Self::Sk, rng: &mut R, m: &[u8], ctx: &[u8], mode: Mode) -> Res<Vec<u8>> {
                match mode {
                    Mode::Pure => sk.try_sign_with_rng(rng, m, ctx).map(|s| s.to_vec()),
                    _ => sk.try_hash_sign_with_rng(rng, m, ctx, &ph(mode)).map(|s| s.to_vec()),
                }
            }
            fn sign_os(sk: &Self::Sk, m: &[u8], ctx: &[u8], mode: Mode) -> Res<Vec<u8>> {
                match mode {
                    Mode::Pure => sk.try_sign(m, ctx).map(|s| s.to_vec()),
                    _ => sk.try_hash_sign(m, ctx, &ph(mode)).map(|s| s.to_vec()),
                }
            }
            fn verify(pk: &Self::Pk, m: &[u8], sig: &[u8], ctx: &[u8], mode: Mode) -> bool {
                let s: [u8; fips204::$m::SIG_LEN] = sig.try_into().expect("sig length");
                match mode {
                    Mode::Pure => pk.verify(m, &s, ctx),
                    _ => pk.hash_verify(m, &s, ctx, &ph(mode)),
                }
            }
            fn internal_sign(sk: &Self::Sk, m: &[u8], ctx: &[u8], rnd: [u8; 32]) -> Res<Vec<u8>> {
                fips204::$m::_internal_sign(sk, m, ctx, rnd).map(|s| s.to_vec())
            }
            fn internal_verify(pk: &Self::Pk, m: &[u8], sig: &[u8], ctx: &[u8]) -> bool {
                let s: [u8; fips204::$m::SIG_LEN] = sig.try_into().expect("sig length");
                fips204::$m::_internal_verify(pk, m, &s, ctx)
            }
            #[cfg(not(feature = "dudect"))]
            fn dudect<R: CryptoRngCore>(_rng: &mut R, _m: &[u8]) -> Res<Vec<u8>> { Err("harness built without feature dudect") }
            #[cfg(feature = "dudect")]
            fn dudect<R: CryptoRngCore>(rng: &mut R, m: &[u8]) -> Res<Vec<u8>> {
                fips204::$m::dudect_keygen_sign_with_rng(rng, m).map(|s| s.to_vec())
            }

            fn h_sig_decode(sig: &[u8]) -> Res<(Vec<u8>, Vec<P>, Option<Vec<P>>)> {
                let s: [u8; fips204::$m::SIG_LEN] = sig.try_into().expect("sig length");
                vhk::sig_decode::<$k, $l, $ld4, { fips204::$m::SIG_LEN }>($g1, $omega, &s)
                    .map(|(c, z, h)| (c.to_vec(), z.to_vec(), h.map(|h| h.to_vec())))
            }
            fn h_sig_encode(c: &[u8], z: &[P], h: &[P], ctest: bool) -> Vec<u8> {
                let c: [u8; $ld4] = c.try_into().expect("c_tilde length");
                if ctest {
                    vhk::sig_encode::<true, $k, $l, $ld4, { fips204::$m::SIG_LEN }>($g1, $omega, &c, &arr(z), &arr(h)).to_vec()
                } else {
                    vhk::sig_encode::<false, $k, $l, $ld4, { fips204::$m::SIG_LEN }>($g1, $omega, &c, &arr(z), &arr(h)).to_vec()
                }
            }
            fn h_hint_unpack(y: &[u8]) -> Res<Vec<P>> { vhk::hint_bit_unpack::<$k>($omega, y).map(|h| h.to_vec()) }
            fn h_hint_pack(h: &[P], ctest: bool) -> Vec<u8> {
                // pre-filled: the encoder must write every output byte itself
                let mut y = vec![0xA5u8; $omega + $k];
                if ctest {
                    vhk::hint_bit_pack::<true, $k>($omega, &arr(h), &mut y);
                } else {
                    vhk::hint_bit_pack::<false, $k>($omega, &arr(h), &mut y);
                }
                y
            }
            fn h_pk_decode(pk: &[u8]) -> Res<(Vec<u8>, Vec<P>)> {
                let a: [u8; fips204::$m::PK_LEN] = pk.try_into().expect("pk length");
                vhk::pk_decode::<$k, { fips204::$m::PK_LEN }>(&a).map(|(r, t)| (r.to_vec(), t.to_vec()))
            }
            fn h_pk_encode(rho: &[u8], t1: &[P]) -> Vec<u8> {
                let r: [u8; 32] = rho.try_into().expect("rho");
                vhk::pk_encode::<$k, { fips204::$m::PK_LEN }>(&r, &arr(t1)).to_vec()
            }
            fn h_sk_decode(sk: &[u8]) -> Res<(Vec<u8>, Vec<u8>, Vec<u8>, Vec<P>, Vec<P>, Vec<P>)> {
                let a: [u8; fips204::$m::SK_LEN] = sk.try_into().expect("sk length");
                vhk::sk_decode::<$k, $l, { fips204::$m::SK_LEN }>($eta, &a)
                    .map(|(r, k, t, s1, s2, t0)| (r.to_vec(), k.to_vec(), t.to_vec(), s1.to_vec(), s2.to_vec(), t0.to_vec()))
            }
            fn h_sk_encode(rho: &[u8], key: &[u8], tr: &[u8], s1: &[P], s2: &[P], t0: &[P]) -> Vec<u8> {
                vhk::sk_encode::<$k, $l, { fips204::$m::SK_LEN }>(
                    $eta, rho.try_into().expect("rho"), key.try_into().expect("K"), tr.try_into().expect("tr"),
                    &arr(s1), &arr(s2), &arr(t0),
                ).to_vec()
            }
            fn h_w1_encode(w1: &[P]) -> Vec<u8> {
                let bits = vhk::bit_length((8_380_417 - 1) / (2 * $g2) - 1);
                let mut out = vec![0x5Au8; 32 * $k * bits];
                vhk::w1_encode::<$k>($g2, &arr(w1), &mut out);
                out
            }
            fn h_mat_vec_mul(a: &[Vec<P>], u: &[P]) -> Vec<P> {
                assert_eq!(a.len(), $k);
                let m: [[P; $l]; $k] = core::array::from_fn(|i| arr(&a[i]));
                vhk::mat_vec_mul::<$k, $l>(&m, &arr(u)).to_vec()
            }
            fn h_ntt_l(v: &[P]) -> Vec<P> { vhk::ntt::<$l>(&arr(v)).to_vec() }
            fn h_ntt_k(v: &[P]) -> Vec<P> { vhk::ntt::<$k>(&arr(v)).to_vec() }
            fn h_inv_ntt_l(v: &[P]) -> Vec<P> { vhk::inv_ntt::<$l>(&arr(v)).to_vec() }
            fn h_inv_ntt_k(v: &[P]) -> Vec<P> { vhk::inv_ntt::<$k>(&arr(v)).to_vec() }
            fn h_to_mont_l(v: &[P]) -> Vec<P> { vhk::to_mont::<$l>(&arr(v)).to_vec() }
            fn h_to_mont_k(v: &[P]) -> Vec<P> { vhk::to_mont::<$k>(&arr(v)).to_vec() }
            fn h_inf_norm_l(v: &[P]) -> i32 { vhk::infinity_norm::<$l>(&arr(v)) }
            fn h_inf_norm_k(v: &[P]) -> i32 { vhk::infinity_norm::<$k>(&arr(v)) }
            fn h_power2round_k(v: &[P]) -> (Vec<P>, Vec<P>) {
                let (a, b) = vhk::power2round::<$k>(&arr(v));
                (a.to_vec(), b.to_vec())
            }
            fn h_expand_a(rho: &[u8; 32], ctest: bool) -> Vec<Vec<P>> {
                let a = if ctest { vhk::expand_a::<true, $k, $l>(rho) } else { vhk::expand_a::<false, $k, $l>(rho) };
                a.iter().map(|r| r.to_vec()).collect()
            }
            fn h_expand_s(rho: &[u8; 64], ctest: bool) -> (Vec<P>, Vec<P>) {
                let (a, b) = if ctest { vhk::expand_s::<true, $k, $l>($eta, rho) } else { vhk::expand_s::<false, $k, $l>($eta, rho) };
                (a.to_vec(), b.to_vec())
            }
            fn h_expand_mask(rho: &[u8; 64], mu: u16) -> Vec<P> { vhk::expand_mask::<$l>($g1, rho, mu).to_vec() }
            fn h_sample_in_ball(rho: &[u8], ctest: bool) -> P {
                if ctest { vhk::sample_in_ball::<true>($tau, rho) } else { vhk::sample_in_ball::<false>($tau, rho) }
            }
        }
    };
}

impl_set!(S44, ml_dsa_44, 44, 4, 4, 32, 2, 1 << 17, (8_380_417 - 1) / 88, 80, 39);
impl_set!(S65, ml_dsa_65, 65, 6, 5, 48, 4, 1 << 19, (8_380_417 - 1) / 32, 55, 49);
impl_set!(S87, ml_dsa_87, 87, 8, 7, 64, 2, 1 << 19, (8_380_417 - 1) / 32, 75, 60);

/// Dispatch a generic function over the selected parameter sets.
#[macro_export]
macro_rules! for_sets {
    ($sets:expr, $f:ident ( $($arg:expr),* )) => {{
        let mut out = Vec::new();
        for s in $sets.iter() {
            match *s {
                44 => out.push($f::<$crate::sets::S44>($($arg),*)),
                65 => out.push($f::<$crate::sets::S65>($($arg),*)),
                87 => out.push($f::<$crate::sets::S87>($($arg),*)),
                _ => panic!("unknown set"),
            }
        }
        out
    }};
}
