//! vh — verification harness for integritychain/fips204 (runtime monitoring family).
//!
//! `vh <stage> --tier quick|thorough --seed N --out report.json [--sets 44,65,87] [--build label]
//!     [--fixtures DIR] [--replay FILE] [--opt k=v ...]`
//!
//! Every stage runs the real crate (path dependency on /repo) under a workload and a set of
//! monitors, and writes a stage report; bin/check turns stage reports into verdicts and evidence.

#![allow(dead_code)]
mod adv;
mod gen;
mod guard;
mod oracle;
mod props;
mod rngs;
mod sets;
mod util;

use std::collections::HashMap;
use std::path::PathBuf;
use std::time::Instant;

pub struct Ctx {
    pub stage: String,
    pub tier: String,
    pub seed: u64,
    pub sets: Vec<u32>,
    pub out: Option<PathBuf>,
    pub build: String,
    pub fixtures: PathBuf,
    pub replay: Option<PathBuf>,
    pub opts: HashMap<String, String>,
}

impl Ctx {
    pub fn thorough(&self) -> bool { self.tier == "thorough" }
    pub fn opt_u64(&self, k: &str, default: u64) -> u64 {
        self.opts.get(k).and_then(|v| v.parse().ok()).unwrap_or(default)
    }
    pub fn opt_str(&self, k: &str) -> Option<&str> { self.opts.get(k).map(String::as_str) }
    /// quick/thorough budget selector
    pub fn budget(&self, quick: u64, thorough: u64) -> u64 { if self.thorough() { thorough } else { quick } }
    pub fn checked_build(&self) -> bool { cfg!(debug_assertions) }
}

fn parse_args() -> Ctx {
    let args: Vec<String> = std::env::args().collect();
    if args.len() < 2 {
        eprintln!("usage: vh <stage> [--tier T] [--seed N] [--out F] [--sets 44,65,87] [--replay F] [--opt k=v]");
        std::process::exit(2);
    }
    let mut ctx = Ctx {
        stage: args[1].clone(),
        tier: "quick".into(),
        seed: 1,
        sets: vec![44, 65, 87],
        out: None,
        build: if cfg!(debug_assertions) { "checked".into() } else { "release".into() },
        fixtures: PathBuf::from("/verif/fixtures"),
        replay: None,
        opts: HashMap::new(),
    };
    let mut i = 2;
    while i < args.len() {
        let a = args[i].as_str();
        let v = args.get(i + 1).cloned();
        let need = || v.clone().unwrap_or_else(|| { eprintln!("missing value for {a}"); std::process::exit(2) });
        match a {
            "--tier" => ctx.tier = need(),
            "--seed" => ctx.seed = need().parse().expect("seed"),
            "--out" => ctx.out = Some(PathBuf::from(need())),
            "--sets" => ctx.sets = need().split(',').map(|s| s.parse().expect("set")).collect(),
            "--build" => ctx.build = need(),
            "--fixtures" => ctx.fixtures = PathBuf::from(need()),
            "--replay" => ctx.replay = Some(PathBuf::from(need())),
            "--opt" => {
                let kv = need();
                let (k, val) = kv.split_once('=').expect("--opt k=v");
                let _ = ctx.opts.insert(k.to_string(), val.to_string());
            }
            other => {
                eprintln!("unknown argument {other}");
                std::process::exit(2);
            }
        }
        i += 2;
    }
    ctx
}

fn main() {
    let ctx = parse_args();
    guard::install_hook();
    let t0 = Instant::now();
    // run on a big-stack thread: ML-DSA-87 structures are large and workloads nest
    let handle = std::thread::Builder::new()
        .stack_size(512 << 20)
        .spawn(move || {
            let out = props::dispatch(&ctx);
            (ctx, out)
        })
        .expect("spawn main worker");
    let (ctx, out) = match handle.join() {
        Ok(v) => v,
        Err(_) => {
            eprintln!("vh: harness thread panicked (harness error, not a verdict)");
            std::process::exit(3);
        }
    };
    let wall = t0.elapsed().as_secs_f64();
    let props::StageOut { property, rule, exhaustive, acc } = out;
    let report = util::stage_report(&property, &ctx.stage, &ctx.build, &ctx.tier, ctx.seed, &rule, exhaustive, &acc, wall);
    let text = serde_json::to_string_pretty(&report).expect("json");
    match &ctx.out {
        Some(p) => std::fs::write(p, text).expect("write report"),
        None => println!("{text}"),
    }
    eprintln!(
        "vh {} [{} {} seed={}]: evaluations={} distinct_nontrivial={} violations={} inconclusive={} wall={:.1}s",
        ctx.stage, ctx.build, ctx.tier, ctx.seed, acc.evaluations, acc.distinct.len() as u64 + acc.distinct_enumerated, acc.violations.len(),
        acc.inconclusive.len(), wall
    );
    for v in acc.violations.iter().take(5) {
        eprintln!("  violation: {} :: {}", v.signature, v.detail);
    }
    for i in acc.inconclusive.iter().take(5) {
        eprintln!("  inconclusive: {i}");
    }
    // exit code is advisory; bin/check decides from the report
    if !acc.violations.is_empty() {
        std::process::exit(1);
    }
    if !acc.inconclusive.is_empty() {
        std::process::exit(2);
    }
}
