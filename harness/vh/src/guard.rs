//! API-boundary panic monitor: catch_unwind + a panic hook recording location and message.

use std::cell::RefCell;
use std::panic::{catch_unwind, AssertUnwindSafe};
use std::sync::Once;

#[derive(Debug, Clone)]
pub struct PanicInfo {
    pub location: String,
    pub message: String,
}

thread_local! {
    static LAST: RefCell<Option<PanicInfo>> = const { RefCell::new(None) };
    static QUIET: RefCell<bool> = const { RefCell::new(false) };
}

static INSTALL: Once = Once::new();

pub fn install_hook() {
    INSTALL.call_once(|| {
        let default = std::panic::take_hook();
        std::panic::set_hook(Box::new(move |info| {
            let location = info
                .location()
                .map(|l| format!("{}:{}", l.file(), l.line()))
                .unwrap_or_else(|| "?".to_string());
            let message = if let Some(s) = info.payload().downcast_ref::<&str>() {
                (*s).to_string()
            } else if let Some(s) = info.payload().downcast_ref::<String>() {
                s.clone()
            } else {
                "<non-string payload>".to_string()
            };
            let quiet = QUIET.with(|q| *q.borrow());
            LAST.with(|l| *l.borrow_mut() = Some(PanicInfo { location, message }));
            if !quiet {
                default(info);
            }
        }));
    });
}

/// Run `f`; a panic inside is returned as Err(PanicInfo) instead of unwinding further.
pub fn guarded<T, F: FnOnce() -> T>(f: F) -> Result<T, PanicInfo> {
    install_hook();
    QUIET.with(|q| *q.borrow_mut() = true);
    LAST.with(|l| *l.borrow_mut() = None);
    let r = catch_unwind(AssertUnwindSafe(f));
    QUIET.with(|q| *q.borrow_mut() = false);
    match r {
        Ok(v) => Ok(v),
        Err(_) => Err(LAST.with(|l| l.borrow_mut().take()).unwrap_or(PanicInfo {
            location: "?".into(),
            message: "?".into(),
        })),
    }
}

/// Strip an absolute prefix so signatures do not depend on where /repo lives.
pub fn short_loc(loc: &str) -> String {
    match loc.find("src/") {
        Some(i) => loc[i..].to_string(),
        None => loc.to_string(),
    }
}

/// Line-number-free key for known-finding signatures: "<file>|<message with digits squashed>".
/// (Unrelated edits shift line numbers; the message of an assertion identifies it.)
pub fn panic_key(pi: &PanicInfo) -> String {
    let loc = short_loc(&pi.location);
    let file = loc.rsplit_once(':').map_or(loc.as_str(), |x| x.0).to_string();
    let mut msg: String = pi.message.chars().take(80).collect();
    // assertion messages with formatted values ("left: 5 right: 7") vary per input: keep the head
    if let Some(i) = msg.find('\n') {
        msg.truncate(i);
    }
    format!("{file}|{msg}")
}
