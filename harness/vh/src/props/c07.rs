//! C07 — the 255-byte context limit is enforced without aliasing.

use crate::for_sets;
use crate::guard::guarded;
use crate::props::common::*;
use crate::props::StageOut;
use crate::sets::PS;
use crate::util::{digest64, hex_short, par_map, Acc, Prng};
use crate::Ctx;
use refimpl as r;
use refimpl::{Mode, MODES};
use serde_json::json;

const RULE: &str = "EVERY context length n in 0..=N (quick N=1100, thorough N=70000, crossing 256, 512 and 65536; quick additionally samples lengths around 65536, 131072 and 196608) x 4 modes x 3 sets: signing must be Ok iff n <= 255 (and then the signature verifies with the same context and fails with a context one byte longer/shorter); verification with an n-byte context, n > 255, must be false for signatures built to alias: the crate's own signature for (ctx' = C[..n-256], M' = C[n-256..] || M), and reference-made signatures over three literal aliasing models (length byte wrapped mod 256 with the full context; context truncated to 255 bytes; length byte saturated at 255 with the full context), in pure and pre-hash modes. Forgeries on a t1 = 0 public key that are valid under twelve wrong models of the message representative (mu = 0, H(tr), H(tr||M), header without context, length byte only, 16-bit length, ...) must be rejected with contexts of 256..65536 bytes in every mode. On 64-bit hosts also all-zero contexts of 2^24, 2^31, 2^32-1 .. 2^32+512 bytes (an untouched calloc buffer): signing must return Err and verification false in every mode, and the crate's own signature for (ctx = 0^r, M = 0^(2^32) || M0) must not verify for (ctx = 0^(2^32+r), M0). Non-trivial = distinct (set, mode, n, probe kind) evaluations.";

pub fn run(ctx: &Ctx) -> StageOut {
    let mut acc = Acc::new();
    if !oracle_gate(ctx, &mut acc) {
        return StageOut::new("C07", RULE, false, acc);
    }
    for a in for_sets!(ctx.sets, run_set(ctx)) {
        acc.merge(a);
    }
    StageOut::new("C07", RULE, true, acc)
}

fn run_set<S: PS>(ctx: &Ctx) -> Acc {
    let p = S::p();
    let n_max = ctx.budget(1100, 70_000) as usize;
    let mut g0 = Prng::derive(ctx.seed, &format!("c07-{}", p.name), 0);
    let xi = g0.arr32();
    let (pk_b, sk_b) = r::keygen_internal(p, &xi);
    // beyond the enumerated range: lengths around every wrap point of a 16-bit (and 17-bit) length
    let extras: Vec<usize> = [65_535usize, 65_536, 65_537, 65_600, 65_791, 65_792, 131_071, 131_072, 131_073, 131_327, 196_608]
        .into_iter().filter(|&n| n > n_max).collect();
    let mut all_lens: Vec<usize> = (0..=n_max).collect();
    all_lens.extend(extras.iter().copied());
    let big_ctx = g0.bytes(all_lens.iter().copied().max().unwrap_or(n_max) + 8);
    let m = g0.bytes(24);
    let chunks = 64usize;
    let accs = par_map(chunks, |c| {
        let mut acc = Acc::new();
        let (Ok(Ok(sk)), Ok(Ok(pk))) = (guarded(|| S::sk_from(&sk_b)), guarded(|| S::pk_from(&pk_b))) else {
            acc.inconclusive("cannot load keys".into());
            return acc;
        };
        let mut g = Prng::derive(ctx.seed, &format!("c07-{}", p.name), 1 + c as u64);
        // interleave lengths over chunks so that every chunk has short and long ones
        let mut li = c;
        while li < all_lens.len() {
            let n = all_lens[li];
            let cx = &big_ctx[..n];
            for mode in MODES {
                acc.eval();
                let rnd = g.arr32();
                let replay = |what: &str, sig: Option<&[u8]>| {
                    let mut v = case_json(S::SET, mode, &pk_b, Some(&sk_b), &m, &[], Some(&rnd), sig);
                    v["kind"] = json!("c07");
                    v["ctx_len"] = json!(n);
                    v["ctx_prefix_of"] = json!(crate::util::sha256_hex(&big_ctx));
                    v["what"] = json!(what);
                    v
                };
                let res = sign_replay::<S>(&sk, &m, cx, mode, &rnd);
                match res {
                    Err(pi) => panic_violation(&mut acc, "C07", "sign", &format!("ctxlen-{}", if n > 255 { "long" } else { "ok" }), &pi, replay("sign", None)),
                    Ok((Ok(sig), _)) => {
                        if n > 255 {
                            acc.violation(&format!("C07|sign-accepted-long-ctx|{}|{}", p.name, mode.name()), format!("signing with a {n}-byte context returned a signature"), replay("sign", Some(&sig)));
                        } else {
                            // must verify with the same context, and not with a neighbour length
                            match guarded(|| S::verify(&pk, &m, &sig, cx, mode)) {
                                Ok(true) => {
                                    acc.count("short_ctx_sign_verify_ok", 1);
                                    acc.nontrivial(digest64(&[&[S::SET as u8], mode.name().as_bytes(), &(n as u64).to_le_bytes(), b"ok"]));
                                }
                                Ok(false) => acc.violation(&format!("C07|short-ctx-rejected|{}|{}", p.name, mode.name()), format!("context of {n} bytes: signature does not verify"), replay("verify-same", Some(&sig))),
                                Err(pi) => panic_violation(&mut acc, "C07", "verify", "ctxlen-ok", &pi, replay("verify-same", Some(&sig))),
                            }
                            let longer = &big_ctx[..n + 1];
                            if matches!(guarded(|| S::verify(&pk, &m, &sig, longer, mode)), Ok(true)) {
                                acc.violation(&format!("C07|neighbour-ctx-accepted|{}|{}", p.name, mode.name()), format!("signature for a {n}-byte context verifies with {} bytes", n + 1), replay("verify-longer", Some(&sig)));
                            }
                            // n = 255 -> 256-byte context built by appending: the classic off-by-one
                            if n == 255 {
                                acc.count("boundary_255_checked", 1);
                            }
                        }
                    }
                    Ok((Err(_), _)) => {
                        if n <= 255 {
                            acc.violation(&format!("C07|sign-rejected-short-ctx|{}|{}", p.name, mode.name()), format!("signing with a {n}-byte context returned Err"), replay("sign", None));
                        } else {
                            acc.count("long_ctx_sign_err", 1);
                            acc.nontrivial(digest64(&[&[S::SET as u8], mode.name().as_bytes(), &(n as u64).to_le_bytes(), b"err"]));
                        }
                    }
                }
                if n > 255 {
                    // alias forgery through the crate's own signer (pure mode): the wrapped length
                    // byte (n mod 256) followed by C then M equals the honest encoding of
                    // ctx' = C[..r], M' = C[r..] || M when r = n mod 256 ... and r <= 255 always.
                    let rr = n % 256;
                    if mode == Mode::Pure {
                        let mut m2 = big_ctx[rr..n].to_vec();
                        m2.extend_from_slice(&m);
                        if let Ok((Ok(sig), _)) = sign_replay::<S>(&sk, &m2, &big_ctx[..rr], Mode::Pure, &rnd) {
                            acc.eval();
                            match guarded(|| S::verify(&pk, &m, &sig, cx, Mode::Pure)) {
                                Ok(false) => {
                                    acc.count("alias_via_signer_rejected", 1);
                                    acc.nontrivial(digest64(&[&[S::SET as u8], b"alias-signer", &(n as u64).to_le_bytes()]));
                                }
                                Ok(true) => acc.violation(&format!("C07|alias-accepted|{}|wrapped-via-signer", p.name), format!("signature for ({rr}-byte ctx, C[{rr}..]||M) verifies for the {n}-byte context C and M: length byte wrapped"), replay("alias-signer", Some(&sig))),
                                Err(pi) => panic_violation(&mut acc, "C07", "verify", "ctxlen-long", &pi, replay("alias-signer", Some(&sig))),
                            }
                        }
                    }
                    // plain verify with the long context on an honest short-context signature
                    match guarded(|| S::verify(&pk, &m, &vec![0u8; p.sig_len], cx, mode)) {
                        Ok(false) => {}
                        Ok(true) => acc.violation(&format!("C07|long-ctx-verify-true|{}", p.name), "verify returned true with a long context".into(), replay("verify-zero-sig", None)),
                        Err(pi) => panic_violation(&mut acc, "C07", "verify", "ctxlen-long", &pi, replay("verify-zero-sig", None)),
                    }
                }
            }
            li += chunks;
        }
        acc
    });
    let mut acc = Acc::merge_all(accs);

    // ---- reference-made alias forgeries over literal M' (pure and pre-hash) ----------------------
    let mut lens: Vec<usize> = vec![256, 257, 300, 511, 512, 513, 767, 768, 1024];
    if ctx.thorough() {
        lens.extend([1279, 4096, 65_535, 65_536, 65_537, 65_791]);
    }
    lens.extend([65_536usize, 65_537, 65_791, 131_072]);
    lens.sort_unstable();
    lens.dedup();
    lens.retain(|&n| n + 8 <= big_ctx.len());
    let jobs: Vec<(usize, Mode, usize)> = lens.iter().flat_map(|&n| MODES.iter().flat_map(move |&mo| (0..3).map(move |k| (n, mo, k)))).collect();
    let (Ok(Ok(pk)),) = (guarded(|| S::pk_from(&pk_b)),) else { return acc };
    drop(pk);
    let res = par_map(jobs.len(), |j| {
        // own key object per worker (key types need not be Sync)
        let Ok(Ok(pk)) = guarded(|| S::pk_from(&pk_b)) else { return Acc::new() };
        let (n, mode, model) = jobs[j];
        let mut a = Acc::new();
        let c = &big_ctx[..n];
        let dom = if mode == Mode::Pure { 0u8 } else { 1u8 };
        let tail: Vec<u8> = if mode == Mode::Pure { m.clone() } else {
            let mut t = r::oid(mode);
            t.extend(r::prehash(mode, &m));
            t
        };
        let mut mp = vec![dom];
        let name = match model {
            0 => { mp.push((n % 256) as u8); mp.extend_from_slice(c); "length-byte-wrapped" }
            1 => { mp.push(255); mp.extend_from_slice(&c[..255]); "ctx-truncated-to-255" }
            _ => { mp.push(255); mp.extend_from_slice(c); "length-byte-saturated" }
        };
        mp.extend_from_slice(&tail);
        let rnd = [n as u8; 32];
        let Some(sig) = r::sign_internal(p, &sk_b, &mp, &rnd) else { return a };
        a.eval();
        let replay = || {
            let mut v = case_json(S::SET, mode, &pk_b, None, &m, c, None, Some(&sig));
            v["kind"] = json!("verify-diff");
            v["class"] = json!(format!("c07-alias-{name}"));
            v
        };
        match guarded(|| S::verify(&pk, &m, &sig, c, mode)) {
            Ok(false) => {
                a.count(&format!("alias_{name}_rejected"), 1);
                a.nontrivial(digest64(&[&[S::SET as u8], name.as_bytes(), mode.name().as_bytes(), &(n as u64).to_le_bytes()]));
                if a.samples.is_empty() && n == 256 && model == 0 {
                    a.sample(json!({"set": p.name, "mode": mode.name(), "ctx_len": n, "alias_model": name, "formatted_message_signed_by_reference": hex_short(&mp), "crate_verify": false}));
                }
            }
            Ok(true) => a.violation(&format!("C07|alias-accepted|{}|{name}|{}", p.name, mode.name()), format!("a signature over the {name} encoding verifies with the {n}-byte context"), replay()),
            Err(pi) => panic_violation(&mut a, "C07", "verify", "ctxlen-long", &pi, replay()),
        }
        a
    });
    for a in res {
        acc.merge(a);
    }
    acc.maxi("max_ctx_len_enumerated", n_max as i64);
    mu_model_forgeries::<S>(ctx, &mut acc);
    huge_contexts::<S>(ctx, &mut acc, &pk_b, &sk_b);
    acc
}

/// Context lengths at and around 2^16 .. 2^32: a guard evaluated on a narrowed copy of the length
/// (u8/u16/u32, or a signed 32-bit view) lets exactly these through.
fn huge_contexts<S: PS>(ctx: &Ctx, acc: &mut Acc, pk_b: &[u8], sk_b: &[u8]) {
    let p = S::p();
    if usize::BITS < 64 {
        return;
    }
    let top = (1usize << 32) + 600;
    let Some(z) = ZeroBuf::new(top) else {
        acc.inconclusive(format!("{}: cannot reserve a {top}-byte zero buffer for the huge-context probes", p.name));
        return;
    };
    let (Ok(Ok(sk)), Ok(Ok(pk))) = (guarded(|| S::sk_from(sk_b)), guarded(|| S::pk_from(pk_b))) else { return };
    let m = [0u8; 24];
    let lens: [usize; 12] = [1 << 24, (1 << 24) + 7, 1 << 31, (1 << 31) + 100, (1 << 32) - 1, 1 << 32, (1 << 32) + 1, (1 << 32) + 100, (1 << 32) + 255, (1 << 32) + 256, (1 << 32) + 511, (1 << 32) + 512];
    let v0 = acc.violations.len();
    // correct code answers these probes without touching the buffer (microseconds). If one length takes seconds,
    // the buffer is being hashed: the remaining, larger probes would only cost minutes each and are skipped
    // (this steers the workload only; it is never a verdict)
    let mut slow = false;
    for &n in &lens {
        // one violation is enough: on a tree that lets huge contexts through every further probe hashes gigabytes
        if acc.violations.len() > v0 || slow {
            break;
        }
        let t_probe = std::time::Instant::now();
        let cx = z.get(n);
        for mode in MODES {
            acc.eval();
            let replay = |what: &str| json!({"kind": "c07-huge", "set": S::SET, "mode": mode.name(), "ctx_len": n, "ctx": "all-zero", "what": what});
            match sign_replay::<S>(&sk, &m, cx, mode, &[7u8; 32]) {
                Err(pi) => panic_violation(acc, "C07", "sign", "ctxlen-huge", &pi, replay("sign")),
                Ok((Ok(_), _)) => acc.violation(&format!("C07|sign-accepted-long-ctx|{}|{}", p.name, mode.name()), format!("signing with a {n}-byte context returned a signature"), replay("sign")),
                Ok((Err(_), _)) => {
                    acc.count("huge_ctx_sign_err", 1);
                    acc.nontrivial(digest64(&[&[S::SET as u8], mode.name().as_bytes(), &(n as u64).to_le_bytes(), b"huge-err"]));
                }
            }
            match guarded(|| S::verify(&pk, &m, &vec![0u8; p.sig_len], cx, mode)) {
                Ok(false) => acc.count("huge_ctx_verify_false", 1),
                Ok(true) => acc.violation(&format!("C07|long-ctx-verify-true|{}", p.name), format!("verify returned true with a {n}-byte context"), replay("verify-zero-sig")),
                Err(pi) => panic_violation(acc, "C07", "verify", "ctxlen-huge", &pi, replay("verify-zero-sig")),
            }
        }
        if t_probe.elapsed().as_secs() >= 4 {
            slow = true;
            acc.count("huge_ctx_probes_cut_short_because_the_buffer_is_being_read", 1);
        }
    }
    // replay of a short-context signature with a 2^32-byte longer context (pure mode): the honest
    // encoding of (ctx = 0^r, M = 0^(2^32) || 0^24) equals the wrapped-length encoding of
    // (ctx = 0^(2^32 + r), M = 0^24). One set per run in quick (4 GiB are hashed once), all in thorough.
    if acc.violations.len() > v0 || slow {
        return;
    }
    if ctx.thorough() || !ctx.checked_build() && (ctx.seed % 3) as usize == [44u32, 65, 87].iter().position(|&s| s == p.set).unwrap_or(0) {
        for rr in [0usize, 255] {
            let m_long = z.get((1usize << 32) + 24);
            if let Ok((Ok(sig), _)) = sign_replay::<S>(&sk, m_long, z.get(rr), Mode::Pure, &[9u8; 32]) {
                acc.eval();
                let n = (1usize << 32) + rr;
                let replay = json!({"kind": "c07-huge", "set": S::SET, "mode": "pure", "ctx_len": n, "ctx": "all-zero", "what": "alias-signer"});
                match guarded(|| S::verify(&pk, &m, &sig, z.get(n), Mode::Pure)) {
                    Ok(false) => {
                        acc.count("huge_alias_via_signer_rejected", 1);
                        acc.nontrivial(digest64(&[&[S::SET as u8], b"huge-alias", &(n as u64).to_le_bytes()]));
                    }
                    Ok(true) => acc.violation(&format!("C07|alias-accepted|{}|wrapped-via-signer", p.name), format!("signature for ({rr}-byte ctx, 0^(2^32)||M) verifies for the {n}-byte context and M: length reduced modulo 2^32"), replay),
                    Err(pi) => panic_violation(acc, "C07", "verify", "ctxlen-huge", &pi, replay),
                }
            } else {
                acc.inconclusive(format!("{}: could not sign the 4 GiB message for the alias probe", p.name));
            }
            if !ctx.thorough() {
                break;
            }
        }
    }
}


/// Forgeries on the degenerate public key (t1 = 0: any z with a small norm verifies once c~ is computed
/// from mu) that are valid under WRONG models of the message representative for an over-long context:
/// what an implementation might be left with if it skips, truncates or half-performs the M' assembly
/// instead of returning false. With a context of more than 255 bytes all of them must be rejected.
fn mu_model_forgeries<S: PS>(ctx: &Ctx, acc: &mut Acc) {
    let p = S::p();
    let mut g = Prng::derive(ctx.seed, &format!("c07-mu-{}", p.name), 0);
    let rho = g.bytes(32);
    let pk_b = crate::gen::degenerate_pk(p, &rho);
    let Ok(Ok(pk)) = guarded(|| S::pk_from(&pk_b)) else { return };
    let tr = r::h(&[&pk_b], 64);
    let z = crate::gen::z_with_spike(&mut g, p, 0, 0, 5, 3);
    let h0 = vec![r::ZERO; p.k];
    let m = g.bytes(24);
    let lens: Vec<usize> = if ctx.thorough() { vec![256, 257, 300, 511, 512, 513, 1024, 4096, 65_536, 65_791] } else { vec![256, 257, 511, 512, 1024, 65_536] };
    for &n in &lens {
        let c = g.bytes(n);
        for mode in MODES {
            let dom = if mode == Mode::Pure { 0u8 } else { 1u8 };
            let tail: Vec<u8> = if mode == Mode::Pure { m.clone() } else {
                let mut t = r::oid(mode);
                t.extend(r::prehash(mode, &m));
                t
            };
            let n8 = (n % 256) as u8;
            let models: Vec<(&str, Vec<u8>)> = vec![
                ("mu-all-zero", vec![0u8; 64]),
                ("mu-all-ff", vec![0xFFu8; 64]),
                ("mu=H(tr)", r::h(&[&tr], 64)),
                ("mu=H(tr||tail)", r::h(&[&tr, &tail], 64)),
                ("mu=H(tr||dom||tail)", r::h(&[&tr, &[dom], &tail], 64)),
                ("mu=H(tr||dom||0||tail)", r::h(&[&tr, &[dom, 0], &tail], 64)),
                ("mu=H(tr||dom||len8||tail)", r::h(&[&tr, &[dom, n8], &tail], 64)),
                ("mu=H(tr||dom||len8||ctx[..len8]||tail)", r::h(&[&tr, &[dom, n8], &c[..n8 as usize], &tail], 64)),
                ("mu=H(tr||dom||len_le16||ctx||tail)", r::h(&[&tr, &[dom], &(n as u16).to_le_bytes(), &c, &tail], 64)),
                ("mu=H(tr||ctx||tail)", r::h(&[&tr, &c, &tail], 64)),
                ("mu=H(tr||M)", r::h(&[&tr, &m], 64)),
                ("mu=H(M')-without-tr", r::h(&[&[dom, n8], &c, &tail], 64)),
            ];
            for (name, mu) in models {
                acc.eval();
                let sig = crate::gen::forge_degenerate_mu(p, &rho, &mu, &z, &h0);
                let replay = || {
                    let mut v = case_json(S::SET, mode, &pk_b, None, &m, &c, None, Some(&sig));
                    v["kind"] = json!("verify-diff");
                    v["class"] = json!(format!("c07-mu-model-{name}"));
                    v
                };
                match guarded(|| S::verify(&pk, &m, &sig, &c, mode)) {
                    Ok(false) => {
                        acc.count("mu_model_forgeries_rejected", 1);
                        acc.nontrivial(digest64(&[&[S::SET as u8], name.as_bytes(), mode.name().as_bytes(), &(n as u64).to_le_bytes()]));
                    }
                    Ok(true) => acc.violation(&format!("C07|alias-accepted|{}|{name}|{}", p.name, mode.name()), format!("a signature valid for {name} verifies with the {n}-byte context"), replay()),
                    Err(pi) => panic_violation(acc, "C07", "verify", "ctxlen-long", &pi, replay()),
                }
            }
        }
    }
    // control: the same forgery under the right mu and a 255-byte context is accepted (the construction works)
    let c = g.bytes(255);
    let mp = r::format_message(Mode::Pure, &m, &c).unwrap();
    let mu = r::h(&[&tr, &mp], 64);
    let sig = crate::gen::forge_degenerate_mu(p, &rho, &mu, &z, &h0);
    match guarded(|| S::verify(&pk, &m, &sig, &c, Mode::Pure)) {
        Ok(true) => acc.count("mu_model_control_accepted", 1),
        _ => acc.inconclusive(format!("{}: the mu-model forgery construction does not verify under the correct mu (see C02)", p.name)),
    }
}
