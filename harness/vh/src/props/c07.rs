//! C07 — the 255-byte context limit is enforced without aliasing.

use crate::for_sets;
use crate::guard::guarded;
use crate::props::common::*;
use crate::props::StageOut;
use crate::sets::PS;
use crate::util::{digest64, hex_short, par_map, Acc, Prng};
use crate::Ctx;
use refimpl as r;
use refimpl::{Mode, MODES};
use serde_json::json;

const RULE: &str = "EVERY context length n in 0..=N (quick N=1100, thorough N=70000, crossing 256, 512 and 65536; quick additionally samples lengths around 65536, 131072 and 196608) x 4 modes x 3 sets: signing must be Ok iff n <= 255 (and then the signature verifies with the same context and fails with a context one byte longer/shorter); verification with an n-byte context, n > 255, must be false for signatures built to alias: the crate's own signature for (ctx' = C[..n-256], M' = C[n-256..] || M), and reference-made signatures over three literal aliasing models (length byte wrapped mod 256 with the full context; context truncated to 255 bytes; length byte saturated at 255 with the full context), in pure and pre-hash modes. Non-trivial = distinct (set, mode, n, probe kind) evaluations.";

pub fn run(ctx: &Ctx) -> StageOut {
    let mut acc = Acc::new();
    if !oracle_gate(ctx, &mut acc) {
        return StageOut::new("C07", RULE, false, acc);
    }
    for a in for_sets!(ctx.sets, run_set(ctx)) {
        acc.merge(a);
    }
    StageOut::new("C07", RULE, true, acc)
}

fn run_set<S: PS>(ctx: &Ctx) -> Acc {
    let p = S::p();
    let n_max = ctx.budget(1100, 70_000) as usize;
    let mut g0 = Prng::derive(ctx.seed, &format!("c07-{}", p.name), 0);
    let xi = g0.arr32();
    let (pk_b, sk_b) = r::keygen_internal(p, &xi);
    // beyond the enumerated range: lengths around every wrap point of a 16-bit (and 17-bit) length
    let extras: Vec<usize> = [65_535usize, 65_536, 65_537, 65_600, 65_791, 65_792, 131_071, 131_072, 131_073, 131_327, 196_608]
        .into_iter().filter(|&n| n > n_max).collect();
    let mut all_lens: Vec<usize> = (0..=n_max).collect();
    all_lens.extend(extras.iter().copied());
    let big_ctx = g0.bytes(all_lens.iter().copied().max().unwrap_or(n_max) + 8);
    let m = g0.bytes(24);
    let chunks = 64usize;
    let accs = par_map(chunks, |c| {
        let mut acc = Acc::new();
        let (Ok(Ok(sk)), Ok(Ok(pk))) = (guarded(|| S::sk_from(&sk_b)), guarded(|| S::pk_from(&pk_b))) else {
            acc.inconclusive("cannot load keys".into());
            return acc;
        };
        let mut g = Prng::derive(ctx.seed, &format!("c07-{}", p.name), 1 + c as u64);
        // interleave lengths over chunks so that every chunk has short and long ones
        let mut li = c;
        while li < all_lens.len() {
            let n = all_lens[li];
            let cx = &big_ctx[..n];
            for mode in MODES {
                acc.eval();
                let rnd = g.arr32();
                let replay = |what: &str, sig: Option<&[u8]>| {
                    let mut v = case_json(S::SET, mode, &pk_b, Some(&sk_b), &m, &[], Some(&rnd), sig);
                    v["kind"] = json!("c07");
                    v["ctx_len"] = json!(n);
                    v["ctx_prefix_of"] = json!(crate::util::sha256_hex(&big_ctx));
                    v["what"] = json!(what);
                    v
                };
                let res = sign_replay::<S>(&sk, &m, cx, mode, &rnd);
                match res {
                    Err(pi) => panic_violation(&mut acc, "C07", "sign", &format!("ctxlen-{}", if n > 255 { "long" } else { "ok" }), &pi, replay("sign", None)),
                    Ok((Ok(sig), _)) => {
                        if n > 255 {
                            acc.violation(&format!("C07|sign-accepted-long-ctx|{}|{}", p.name, mode.name()), format!("signing with a {n}-byte context returned a signature"), replay("sign", Some(&sig)));
                        } else {
                            // must verify with the same context, and not with a neighbour length
                            match guarded(|| S::verify(&pk, &m, &sig, cx, mode)) {
                                Ok(true) => {
                                    acc.count("short_ctx_sign_verify_ok", 1);
                                    acc.nontrivial(digest64(&[&[S::SET as u8], mode.name().as_bytes(), &(n as u64).to_le_bytes(), b"ok"]));
                                }
                                Ok(false) => acc.violation(&format!("C07|short-ctx-rejected|{}|{}", p.name, mode.name()), format!("context of {n} bytes: signature does not verify"), replay("verify-same", Some(&sig))),
                                Err(pi) => panic_violation(&mut acc, "C07", "verify", "ctxlen-ok", &pi, replay("verify-same", Some(&sig))),
                            }
                            let longer = &big_ctx[..n + 1];
                            if matches!(guarded(|| S::verify(&pk, &m, &sig, longer, mode)), Ok(true)) {
                                acc.violation(&format!("C07|neighbour-ctx-accepted|{}|{}", p.name, mode.name()), format!("signature for a {n}-byte context verifies with {} bytes", n + 1), replay("verify-longer", Some(&sig)));
                            }
                            // n = 255 -> 256-byte context built by appending: the classic off-by-one
                            if n == 255 {
                                acc.count("boundary_255_checked", 1);
                            }
                        }
                    }
                    Ok((Err(_), _)) => {
                        if n <= 255 {
                            acc.violation(&format!("C07|sign-rejected-short-ctx|{}|{}", p.name, mode.name()), format!("signing with a {n}-byte context returned Err"), replay("sign", None));
                        } else {
                            acc.count("long_ctx_sign_err", 1);
                            acc.nontrivial(digest64(&[&[S::SET as u8], mode.name().as_bytes(), &(n as u64).to_le_bytes(), b"err"]));
                        }
                    }
                }
                if n > 255 {
                    // alias forgery through the crate's own signer (pure mode): the wrapped length
                    // byte (n mod 256) followed by C then M equals the honest encoding of
                    // ctx' = C[..r], M' = C[r..] || M when r = n mod 256 ... and r <= 255 always.
                    let rr = n % 256;
                    if mode == Mode::Pure {
                        let mut m2 = big_ctx[rr..n].to_vec();
                        m2.extend_from_slice(&m);
                        if let Ok((Ok(sig), _)) = sign_replay::<S>(&sk, &m2, &big_ctx[..rr], Mode::Pure, &rnd) {
                            acc.eval();
                            match guarded(|| S::verify(&pk, &m, &sig, cx, Mode::Pure)) {
                                Ok(false) => {
                                    acc.count("alias_via_signer_rejected", 1);
                                    acc.nontrivial(digest64(&[&[S::SET as u8], b"alias-signer", &(n as u64).to_le_bytes()]));
                                }
                                Ok(true) => acc.violation(&format!("C07|alias-accepted|{}|wrapped-via-signer", p.name), format!("signature for ({rr}-byte ctx, C[{rr}..]||M) verifies for the {n}-byte context C and M: length byte wrapped"), replay("alias-signer", Some(&sig))),
                                Err(pi) => panic_violation(&mut acc, "C07", "verify", "ctxlen-long", &pi, replay("alias-signer", Some(&sig))),
                            }
                        }
                    }
                    // plain verify with the long context on an honest short-context signature
                    match guarded(|| S::verify(&pk, &m, &vec![0u8; p.sig_len], cx, mode)) {
                        Ok(false) => {}
                        Ok(true) => acc.violation(&format!("C07|long-ctx-verify-true|{}", p.name), "verify returned true with a long context".into(), replay("verify-zero-sig", None)),
                        Err(pi) => panic_violation(&mut acc, "C07", "verify", "ctxlen-long", &pi, replay("verify-zero-sig", None)),
                    }
                }
            }
            li += chunks;
        }
        acc
    });
    let mut acc = Acc::merge_all(accs);

    // ---- reference-made alias forgeries over literal M' (pure and pre-hash) ----------------------
    let mut lens: Vec<usize> = vec![256, 257, 300, 511, 512, 513, 767, 768, 1024];
    if ctx.thorough() {
        lens.extend([1279, 4096, 65_535, 65_536, 65_537, 65_791]);
    }
    lens.extend([65_536usize, 65_537, 65_791, 131_072]);
    lens.sort_unstable();
    lens.dedup();
    lens.retain(|&n| n + 8 <= big_ctx.len());
    let jobs: Vec<(usize, Mode, usize)> = lens.iter().flat_map(|&n| MODES.iter().flat_map(move |&mo| (0..3).map(move |k| (n, mo, k)))).collect();
    let (Ok(Ok(pk)),) = (guarded(|| S::pk_from(&pk_b)),) else { return acc };
    let res = par_map(jobs.len(), |j| {
        let (n, mode, model) = jobs[j];
        let mut a = Acc::new();
        let c = &big_ctx[..n];
        let dom = if mode == Mode::Pure { 0u8 } else { 1u8 };
        let tail: Vec<u8> = if mode == Mode::Pure { m.clone() } else {
            let mut t = r::oid(mode);
            t.extend(r::prehash(mode, &m));
            t
        };
        let mut mp = vec![dom];
        let name = match model {
            0 => { mp.push((n % 256) as u8); mp.extend_from_slice(c); "length-byte-wrapped" }
            1 => { mp.push(255); mp.extend_from_slice(&c[..255]); "ctx-truncated-to-255" }
            _ => { mp.push(255); mp.extend_from_slice(c); "length-byte-saturated" }
        };
        mp.extend_from_slice(&tail);
        let rnd = [n as u8; 32];
        let Some(sig) = r::sign_internal(p, &sk_b, &mp, &rnd) else { return a };
        a.eval();
        let replay = || {
            let mut v = case_json(S::SET, mode, &pk_b, None, &m, c, None, Some(&sig));
            v["kind"] = json!("verify-diff");
            v["class"] = json!(format!("c07-alias-{name}"));
            v
        };
        match guarded(|| S::verify(&pk, &m, &sig, c, mode)) {
            Ok(false) => {
                a.count(&format!("alias_{name}_rejected"), 1);
                a.nontrivial(digest64(&[&[S::SET as u8], name.as_bytes(), mode.name().as_bytes(), &(n as u64).to_le_bytes()]));
                if a.samples.is_empty() && n == 256 && model == 0 {
                    a.sample(json!({"set": p.name, "mode": mode.name(), "ctx_len": n, "alias_model": name, "formatted_message_signed_by_reference": hex_short(&mp), "crate_verify": false}));
                }
            }
            Ok(true) => a.violation(&format!("C07|alias-accepted|{}|{name}|{}", p.name, mode.name()), format!("a signature over the {name} encoding verifies with the {n}-byte context"), replay()),
            Err(pi) => panic_violation(&mut a, "C07", "verify", "ctxlen-long", &pi, replay()),
        }
        a
    });
    for a in res {
        acc.merge(a);
    }
    acc.maxi("max_ctx_len_enumerated", n_max as i64);
    acc
}
