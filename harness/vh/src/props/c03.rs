//! C03 — signatures are byte-identical to FIPS 204 Sign for the drawn rnd.

use crate::for_sets;
use crate::gen::{self, SPat, T0Pat};
use crate::guard::guarded;
use crate::props::common::*;
use crate::props::StageOut;
use crate::sets::PS;
use crate::util::{digest64, hex, hex_short, par_map, Acc, Prng};
use crate::Ctx;
use refimpl as r;
use refimpl::{Mode, SignOut, MODES};
use serde_json::json;

const RULE: &str = "for keys (generated; serialise/deserialise round-tripped; structure-aware hostile encodings that deserialisation accepts: arbitrary rho/K/tr, s1/s2 at range ends, t0 unrelated to the key; plus a rejection-heavy class with t0 partly at the range extremes that needs tens to thousands of rejection iterations so that the 16-bit ExpandMask counter crosses its byte boundaries) x message/context shapes x 4 modes x rnd classes: bytes returned by try_sign_with_rng/try_hash_sign_with_rng under a replaying RNG must equal the reference ML-DSA.Sign/HashML-DSA.Sign computed from the sk *bytes*; the RNG log must be exactly one try_fill_bytes(32); the same call repeated on another thread at another stack depth must return the same bytes; 60 ACVP sigGen vectors via _internal_sign. Volume: 30 000 / 600 000 signatures per set (a quarter in the checked build) under accepted keys whose t0 consists of a few monomials with values around beta and 2*beta (a fresh key every 8 signatures) compared with the reference byte for byte; fixtures/bnd (inputs found by an instrumented-reference search in which ||c t0|| meets gamma2 exactly, the hint weight is omega+1, or the accepted candidate is one below those bounds) are replayed. Non-trivial = distinct (key, message, ctx, mode, rnd) whose reference execution had at least one rejection iteration.";

pub fn run(ctx: &Ctx) -> StageOut {
    let mut acc = Acc::new();
    if !oracle_gate(ctx, &mut acc) {
        return StageOut::new("C03", RULE, false, acc);
    }
    for a in for_sets!(ctx.sets, run_set(ctx)) {
        acc.merge(a);
    }
    acvp_siggen(ctx, &mut acc);
    StageOut::new("C03", RULE, false, acc)
}

pub fn check_sign<S: PS>(
    acc: &mut Acc, class: &str, sk_obj: &S::Sk, sk_bytes: &[u8], m: &[u8], cx: &[u8], mode: Mode, rnd: &[u8; 32],
    repeat_on_thread: bool,
) {
    let p = S::p();
    acc.eval();
    let replay = |sig: Option<&[u8]>, want: Option<&[u8]>| {
        let mut v = case_json(S::SET, mode, &[], Some(sk_bytes), m, cx, Some(rnd), sig);
        v["kind"] = json!("sign-diff");
        v["class"] = json!(class);
        v["reference_sig"] = json!(want.map(hex));
        v
    };
    r::events_reset();
    let want = r::sign(p, sk_bytes, m, cx, mode, rnd);
    let evs = r::events_take();
    let want = match want {
        SignOut::Sig(s) => s,
        SignOut::LoopCap => {
            acc.count("reference_loop_cap_skipped", 1);
            return;
        }
        SignOut::CtxTooLong => unreachable!("contexts here are <= 255"),
    };
    let (res, log_ok) = match sign_replay::<S>(sk_obj, m, cx, mode, rnd) {
        Ok(x) => x,
        Err(pi) => {
            panic_violation(acc, "C03", "sign", class, &pi, replay(None, Some(&want)));
            return;
        }
    };
    let got = match res {
        Ok(s) => s,
        Err(e) => {
            acc.violation(&format!("C03|sign-err|{}|{}|{class}", p.name, mode.name()), format!("sign returned Err({e}) where FIPS 204 Sign produces a signature after {} iterations", evs.sign_iterations), replay(None, Some(&want)));
            return;
        }
    };
    if !log_ok {
        acc.violation(&format!("C03|rng-log|{}|{}", p.name, mode.name()), "RNG log is not exactly one try_fill_bytes(32)".into(), replay(Some(&got), Some(&want)));
    }
    if got != want {
        let first = got.iter().zip(want.iter()).position(|(a, b)| a != b).unwrap_or(0);
        acc.violation(
            &format!("C03|bytes-differ|{}|{}|{class}", p.name, mode.name()),
            format!("signature differs from FIPS 204 Sign output (first differing byte {first} of {})", want.len()),
            replay(Some(&got), Some(&want)),
        );
        return;
    }
    if repeat_on_thread {
        // "a function of nothing else": other thread, deeper stack, after unrelated calls
        // the object handed to the other thread is a clone taken now, i.e. with whatever state the key object
        // has accumulated (key types need not be Sync, only Send)
        let sk_moved = sk_obj.clone();
        let again = std::thread::scope(|s| {
            std::thread::Builder::new()
                .stack_size(64 << 20)
                .spawn_scoped(s, move || {
                    fn deeper<S: PS>(d: usize, sk: &S::Sk, m: &[u8], cx: &[u8], mode: Mode, rnd: &[u8; 32]) -> Option<Vec<u8>> {
                        let pad = [d as u8; 1024];
                        if d > 0 {
                            let r = deeper::<S>(d - 1, sk, m, cx, mode, rnd);
                            std::hint::black_box(&pad);
                            return r;
                        }
                        let _ = S::keygen_seed(&[7u8; 32]); // unrelated API traffic
                        match sign_replay::<S>(sk, m, cx, mode, rnd) {
                            Ok((Ok(s), _)) => Some(s),
                            _ => None,
                        }
                    }
                    deeper::<S>(17, &sk_moved, m, cx, mode, rnd)
                })
                .expect("spawn")
                .join()
                .ok()
                .flatten()
        });
        acc.count("repeat_other_thread", 1);
        if again.as_deref() != Some(&got[..]) {
            acc.violation(&format!("C03|not-deterministic|{}|{}", p.name, mode.name()), "same inputs on another thread gave different bytes".into(), replay(Some(&got), Some(&want)));
            return;
        }
    }
    acc.count(&format!("match_{class}"), 1);
    {
        let counts = &got[p.sig_len - p.k..];
        if usize::from(counts[p.k - 1]) == p.omega {
            acc.count("signatures_with_hint_weight_omega", 1);
            if p.k >= 2 && counts[p.k - 2] == counts[p.k - 1] {
                acc.count("signatures_with_weight_omega_and_empty_last_polynomial", 1);
            }
        }
    }
    acc.maxi("max_kappa_iterations", evs.sign_iterations as i64);
    let bucket = match evs.sign_iterations { 0..=1 => "1", 2..=9 => "2-9", 10..=36 => "10-36", 37..=99 => "37-99", 100..=999 => "100-999", _ => "1000+" };
    acc.count(&format!("signatures_with_iterations_{bucket}"), 1);
    acc.count("rejections_z", evs.rej_z);
    acc.count("rejections_r0", evs.rej_r0);
    acc.count("rejections_ct0", evs.rej_ct0);
    acc.count("rejections_hint_weight", evs.rej_hint);
    if evs.sign_iterations >= 2 {
        acc.nontrivial(digest64(&[&[S::SET as u8], mode.name().as_bytes(), sk_bytes, m, cx, rnd]));
    }
    if acc.samples.len() < 3 {
        acc.sample(json!({"set": p.name, "class": class, "mode": mode.name(), "sk_sha256": crate::util::sha256_hex(sk_bytes),
            "message": hex_short(m), "ctx": hex_short(cx), "rnd": hex(rnd), "iterations": evs.sign_iterations,
            "sig": hex_short(&got), "equal_to_reference": true}));
    }
}

fn run_set<S: PS>(ctx: &Ctx) -> Acc {
    let p = S::p();
    let n_jobs = ctx.budget(16, 160) as usize;
    let thorough = ctx.thorough();
    let accs = par_map(n_jobs, |ji| {
        let mut acc = Acc::new();
        let mut g = Prng::derive(ctx.seed, &format!("c03-{}", p.name), ji as u64);
        let xi = g.arr32();
        // key provenance by job index
        let (class, sk_bytes): (&str, Vec<u8>) = match ji % 4 {
            0 | 1 => ("generated", r::keygen_internal(p, &xi).1),
            2 => ("hostile-random", gen::hostile_sk(&mut g, p, SPat::Random, T0Pat::Random)),
            _ => {
                let sp = *g.pick(&[SPat::AllMinus, SPat::AllPlus, SPat::Alternating, SPat::Zero, SPat::Random, SPat::NttSparse]);
                let tp = *g.pick(&[T0Pat::Zero, T0Pat::Random, T0Pat::AllTop, T0Pat::AllBottom, T0Pat::NttSparse, T0Pat::SparseSmall, T0Pat::SparseSmall]);
                ("hostile-extremal", gen::hostile_sk(&mut g, p, sp, tp))
            }
        };
        let sk_obj: S::Sk = if ji % 4 == 0 {
            // the object as key generation returned it (only possible for seeds)
            match guarded(|| S::keygen_seed(&xi).1) {
                Ok(s) => s,
                Err(pi) => {
                    panic_violation(&mut acc, "C03", "keygen", class, &pi, json!({"kind":"keygen","set":S::SET,"xi":hex(&xi)}));
                    return acc;
                }
            }
        } else {
            match guarded(|| S::sk_from(&sk_bytes)) {
                Ok(Ok(s)) => s,
                Ok(Err(e)) => {
                    acc.violation(&format!("C03|sk-rejected|{}|{class}", p.name), format!("in-range private key rejected: {e} (see C10)"), json!({"kind":"sk-accept","set":S::SET,"sk":hex(&sk_bytes)}));
                    return acc;
                }
                Err(pi) => {
                    panic_violation(&mut acc, "C03", "sk_from", class, &pi, json!({"kind":"sk-accept","set":S::SET,"sk":hex(&sk_bytes)}));
                    return acc;
                }
            }
        };
        let class = if ji % 4 == 0 { "generated-object" } else if ji % 4 == 1 { "roundtripped" } else { class };
        let reps = if thorough { 3 } else { 2 };
        for rep in 0..reps {
            for mode in MODES {
                let cl = *g.pick(&gen::CTX_LENGTHS);
                let lens = gen::message_lengths(cl, false);
                // the first jobs sign one long message (just past 4 KiB .. 1 MiB) in every mode
                let long = gen::long_message_lengths(&mut g);
                let ml = if rep == 0 && ji < long.len() { long[ji] } else { *g.pick(&lens) };
                let m = gen::message(&mut g, ml);
                let cx = gen::context(&mut g, cl);
                let rnd = gen::rnd_class(&mut g);
                check_sign::<S>(&mut acc, class, &sk_obj, &sk_bytes, &m, &cx, mode, &rnd, rep == 0 && mode == Mode::Pure);
            }
        }
        acc
    });
    let mut acc = Acc::merge_all(accs);
    // ---- rejection-heavy signing: accepted keys whose t0 is (partly) at the range extremes need tens
    // to thousands of rejection iterations, so the ExpandMask counter kappa crosses its byte
    // boundaries and every rejection branch is taken many times before a signature comes out
    let pats: &[T0Pat] = match p.set {
        44 => &[T0Pat::PartialExtremes(70), T0Pat::PartialExtremes(85)],
        65 => &[T0Pat::RandomExtremes, T0Pat::PartialExtremes(85)],
        _ => &[T0Pat::PartialExtremes(70), T0Pat::PartialExtremes(85)],
    };
    let n_heavy = ctx.budget(96, 2400) as usize;
    let accs = par_map(n_heavy, |i| {
        let mut acc = Acc::new();
        let mut g = Prng::derive(ctx.seed, &format!("c03-heavy-{}", p.name), i as u64);
        let sk_bytes = gen::hostile_sk(&mut g, p, SPat::Random, pats[i % pats.len()]);
        let Ok(Ok(sk_obj)) = guarded(|| S::sk_from(&sk_bytes)) else {
            acc.violation(&format!("C03|sk-rejected|{}|rejection-heavy", p.name), "in-range private key rejected (see C10)".into(), json!({"kind":"sk-roundtrip","set":S::SET,"sk":hex(&sk_bytes)}));
            return acc;
        };
        let m = g.bytes(1 + i % 40);
        let cx = g.bytes(i % 4);
        let rnd = g.arr32();
        check_sign::<S>(&mut acc, "rejection-heavy", &sk_obj, &sk_bytes, &m, &cx, MODES[i % 4], &rnd, false);
        acc
    });
    for a in accs {
        acc.merge(a);
    }
    // ---- hint-saturating keys: t0 of the last polynomial zero, the others (partly) at the range extremes:
    // accepted signatures cluster at hint weight omega with an empty last polynomial
    let n_sat = ctx.budget(64, 1600) as usize;
    let accs = par_map(n_sat, |i| {
        let mut acc = Acc::new();
        let mut g = Prng::derive(ctx.seed, &format!("c03-sat-{}", p.name), i as u64);
        let pc = if p.set == 87 { 70 } else if p.set == 65 { 100 } else { 70 };
        let s1: Vec<r::Poly> = (0..p.l).map(|_| gen::s_poly(&mut g, p.eta, SPat::Random)).collect();
        let s2: Vec<r::Poly> = (0..p.k).map(|_| gen::s_poly(&mut g, p.eta, SPat::Random)).collect();
        let t0: Vec<r::Poly> = (0..p.k).map(|k| if k + 1 == p.k { r::ZERO } else { gen::t0_poly(&mut g, T0Pat::PartialExtremes(pc)) }).collect();
        let sk_bytes = r::sk_encode(p, &g.bytes(32), &g.bytes(32), &g.bytes(64), &s1, &s2, &t0);
        let Ok(Ok(sk_obj)) = guarded(|| S::sk_from(&sk_bytes)) else { return acc };
        let m = g.bytes(8);
        let rnd = g.arr32();
        check_sign::<S>(&mut acc, "hint-saturating", &sk_obj, &sk_bytes, &m, &[], MODES[i % 4], &rnd, false);
        acc
    });
    for a in accs {
        acc.merge(a);
    }
    // ---- volume on keys whose c*t0 takes small exact values: t0 made of a few monomials with values around
    // beta and 2*beta. Every coefficient comparison that involves c*t0 (MakeHint's bucket edges, masks or
    // shortcuts keyed on |c*t0|) then sits on or next to its boundary at tau positions per monomial, in every
    // signature; with honest keys such coincidences have probability ~1e-7 per signature.
    let n_small = ctx.budget(30_000, 600_000) as usize / if ctx.checked_build() { 4 } else { 1 };
    let shards = 64usize;
    let accs = par_map(shards, |sh| {
        let mut acc = Acc::new();
        let mut g = Prng::derive(ctx.seed, &format!("c03-smallt0-{}", p.name), sh as u64);
        let mut cur: Option<(S::Sk, Vec<u8>)> = None;
        for it in 0..n_small / shards {
            if it % 8 == 0 {
                let s1: Vec<r::Poly> = (0..p.l).map(|_| gen::s_poly(&mut g, p.eta, SPat::Random)).collect();
                let s2: Vec<r::Poly> = (0..p.k).map(|_| gen::s_poly(&mut g, p.eta, SPat::Random)).collect();
                let t0 = gen::t0_sparse_small(&mut g, p);
                let b = r::sk_encode(p, &g.bytes(32), &g.bytes(32), &g.bytes(64), &s1, &s2, &t0);
                cur = match guarded(|| S::sk_from(&b)) {
                    Ok(Ok(o)) => Some((o, b)),
                    _ => None,
                };
            }
            let Some((sk_obj, sk_bytes)) = cur.as_ref() else { continue };
            let m = g.bytes(10);
            let rnd = g.arr32();
            // lean comparison: bytes against the reference (the full monitored check only on a mismatch)
            let mp = r::format_message(Mode::Pure, &m, &[]).unwrap();
            let want = r::sign_internal(p, sk_bytes, &mp, &rnd);
            let got = sign_replay::<S>(sk_obj, &m, &[], Mode::Pure, &rnd);
            acc.eval();
            match (got, want) {
                (Ok((Ok(sig), _)), Some(w)) if sig == w => {
                    acc.count("small_t0_signatures_match", 1);
                    acc.distinct_enumerated += 1;
                }
                _ => check_sign::<S>(&mut acc, "small-t0-volume", sk_obj, sk_bytes, &m, &[], Mode::Pure, &rnd, false),
            }
        }
        acc
    });
    for a in accs {
        acc.merge(a);
    }
    // ---- fixtures/bnd: signing inputs (found by `vh bndsearch` with the instrumented reference) whose
    // rejection loop meets ||c t0|| = gamma2 exactly (only at -gamma2 / also at +gamma2), hint weight
    // omega + 1, or accepts a candidate one below those bounds
    let fx = crate::props::bnd::fixtures(ctx, S::SET);
    for (event, sk_bytes, m, rnd) in &fx {
        let Ok(Ok(sk_obj)) = guarded(|| S::sk_from(sk_bytes)) else { continue };
        // the fixture must still show its event under the reference (else it is stale: say so)
        r::events_reset();
        let mp = r::format_message(Mode::Pure, m, &[]).unwrap();
        let _ = r::sign_internal_capped(p, sk_bytes, &mp, rnd, 4000);
        let e = r::events_take();
        let seen = match event.as_str() {
            "ct0-exact-neg" => e.lone_exact_ct0_neg,
            "ct0-exact-pos" => e.lone_exact_ct0_pos,
            "hint-omega-plus-1" => e.lone_exact_hint,
            "accepted-ct0-gamma2-minus-1" => e.accept_ct0_gamma2_minus_1,
            _ => e.accept_hint_omega,
        };
        if seen == 0 {
            acc.inconclusive(format!("fixtures/bnd: a {event} fixture no longer shows its event under the reference"));
            continue;
        }
        acc.count(&format!("boundary_fixture_{event}"), 1);
        check_sign::<S>(&mut acc, &format!("boundary-fixture-{event}"), &sk_obj, sk_bytes, m, &[], Mode::Pure, rnd, false);
    }
    if p.set == 44 && !fx.iter().any(|f| f.0.starts_with("ct0-exact")) {
        acc.inconclusive("fixtures/bnd has no ML-DSA-44 input with ||c t0|| exactly gamma2 (run `vh bndsearch`)".into());
    }
    acc
}

fn acvp_siggen(ctx: &Ctx, acc: &mut Acc) {
    let Ok(vs) = crate::oracle::siggen_vectors(&ctx.fixtures.join("acvp")) else { return };
    let idx: Vec<usize> = (0..vs.len()).filter(|&i| ctx.sets.contains(&vs[i].set)).collect();
    let res = par_map(idx.len(), |j| {
        let t = &vs[idx[j]];
        fn one<S: PS>(t: &crate::oracle::SigGenVec) -> Result<Option<Vec<u8>>, crate::guard::PanicInfo> {
            guarded(|| S::sk_from(&t.sk).ok().and_then(|sk| S::internal_sign(&sk, &t.message, &[], t.rnd).ok()))
        }
        match t.set {
            44 => one::<crate::sets::S44>(t),
            65 => one::<crate::sets::S65>(t),
            _ => one::<crate::sets::S87>(t),
        }
    });
    for (j, got) in res.into_iter().enumerate() {
        let t = &vs[idx[j]];
        acc.eval();
        acc.count("acvp_siggen_vectors", 1);
        match got {
            Ok(Some(s)) if s == t.signature => {
                acc.nontrivial(digest64(&[b"acvp", &t.sk, &t.message, &t.rnd]));
            }
            Ok(_) => acc.violation(&format!("C03|acvp-siggen|{}", t.set), format!("ACVP sigGen vector {} not reproduced by _internal_sign", idx[j]), json!({"kind":"acvp-siggen","index":idx[j]})),
            Err(pi) => panic_violation(acc, "C03", "_internal_sign", "acvp", &pi, json!({"kind":"acvp-siggen","index":idx[j]})),
        }
    }
}
