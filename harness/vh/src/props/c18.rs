//! C18 — NTT-based polynomial products equal the negacyclic product mod q (hooks vs schoolbook),
//! including adversarially aligned response vectors.

use crate::adv;
use crate::for_sets;
use crate::gen;
use crate::guard::guarded;
use crate::props::common::*;
use crate::props::StageOut;
use crate::sets::{to_i32, to_i64, v_to_i32, PS, P};
use crate::util::{digest64, hex, par_map, Acc, Prng};
use crate::Ctx;
use fips204::verif_hooks as hk;
use refimpl as r;
use refimpl::{Mode, Poly, Q};
use serde_json::{json, Value};

const RULE: &str = "the crate's own pipelines are replayed through verif_hooks exactly as ml_dsa.rs composes them and compared with the schoolbook negacyclic product in i128: (a) c*x = inv_ntt(mont_reduce(ntt(c) . to_mont(ntt(x)))) for tau-sparse +-1 challenges (all three tau) and x in [-eta,eta], [-4095,4096], t1*2^13; (b) A*v = inv_ntt(mat_vec_mul(A_hat, ntt(v))) for v in [-gamma1+1,gamma1] and [-eta,eta] at each (k,l); (c) verify's A*z - c*t1*2^d. Inputs: all 256 basis polynomials x scalars {1,-1,max,-max}, all-max, all-min, alternating, seeded random sign patterns of extremal magnitude, random in-range vectors, inverse-NTT inputs that are constant / two-valued / constant with one slot offset by 1..255 (so that the input sum takes every residue modulo 256 at every magnitude) over all 256 slots for every value where a reduction changes behaviour in the call-site range |x| < 8q (multiples of 2^23 and of q, +-2, powers of two, a seeded stride), mat_vec_mul with arbitrary (not ExpandA-derived) all-equal matrix and vector slots, response polynomials found by a black-box layer-by-layer maximisation of the forward NTT's slot-0 magnitude through the real hook (must stay inside to_mont's input range), and sparse-coset adversarial rows (fixtures for ML-DSA-65/87, fresh search in thorough) which are also turned into FIPS-valid signatures and put through verify() against the reference. Violation = overflow-check panic, result not congruent to the schoolbook product, or inverse-NTT output outside [0,q). Evidence reports the largest |sum of inverse-NTT inputs| reached as a fraction of 2^31. Non-trivial = distinct input vectors per pipeline shape.";

pub fn run(ctx: &Ctx) -> StageOut {
    let mut acc = Acc::new();
    if !oracle_gate(ctx, &mut acc) {
        return StageOut::new("C18", RULE, false, acc);
    }
    for a in for_sets!(ctx.sets, run_set(ctx)) {
        acc.merge(a);
    }
    StageOut::new("C18", RULE, false, acc)
}

fn check_range_and_congruence(acc: &mut Acc, shape: &str, set: &str, got: &P, want: &Poly, replay: &dyn Fn() -> Value) -> bool {
    for n in 0..256 {
        let g = i64::from(got[n]);
        if g < 0 || g >= Q {
            acc.violation(&format!("C18|out-of-range|{set}|{shape}"), format!("inverse-NTT output coefficient {n} = {g} outside [0, q)"), replay());
            return false;
        }
        if g != want[n] {
            acc.violation(&format!("C18|not-congruent|{set}|{shape}"), format!("coefficient {n}: pipeline gives {g}, negacyclic product is {}", want[n]), replay());
            return false;
        }
    }
    true
}

/// (a) c * x as sign_internal computes it
fn shape_cx(acc: &mut Acc, set: &str, shape: &str, c: &Poly, x: &Poly) {
    acc.eval();
    let replay = || json!({"kind":"c18-cx","shape":shape,"c":c.to_vec(),"x":x.to_vec()});
    let want = r::schoolbook_mul(c, x);
    let got = guarded(|| {
        let c_hat = hk::ntt::<1>(&[to_i32(c)]);
        let x_hat_mont = hk::to_mont::<1>(&hk::ntt::<1>(&[to_i32(x)]));
        let prod: P = core::array::from_fn(|n| hk::mont_reduce(i64::from(c_hat[0][n]) * i64::from(x_hat_mont[0][n])));
        hk::inv_ntt::<1>(&[prod])[0]
    });
    match got {
        Err(pi) => panic_violation(acc, "C18", "ntt/to_mont/mont_reduce/inv_ntt", shape, &pi, replay()),
        Ok(g) => {
            if check_range_and_congruence(acc, shape, set, &g, &want, &replay) {
                acc.count(&format!("ok_{shape}"), 1);
                acc.nontrivial(digest64(&[shape.as_bytes(), &c.iter().flat_map(|v| v.to_le_bytes()).collect::<Vec<u8>>(), &x.iter().flat_map(|v| v.to_le_bytes()).collect::<Vec<u8>>()]));
            }
        }
    }
}

/// coefficient-domain matrix from A_hat (reference inverse NTT)
fn a_coeff(a_hat: &[Vec<Poly>]) -> Vec<Vec<Poly>> { a_hat.iter().map(|row| row.iter().map(r::ntt_inv).collect()).collect() }

fn schoolbook_matvec(a: &[Vec<Poly>], v: &[Poly]) -> Vec<Poly> {
    a.iter()
        .map(|row| {
            let mut accp = r::ZERO;
            for (aj, vj) in row.iter().zip(v.iter()) {
                let pr = r::schoolbook_mul(aj, vj);
                for n in 0..256 {
                    accp[n] = (accp[n] + pr[n]) % Q;
                }
            }
            accp
        })
        .collect()
}

/// (b)/(c) A*v - c*t1*2^d exactly as verify_internal / sign_internal compose it. t1 = None -> plain A*v.
fn shape_av<S: PS>(acc: &mut Acc, shape: &str, a_hat: &[Vec<P>], a_co: &[Vec<Poly>], v: &[Poly], ct: Option<(&Poly, &[Poly])>) {
    let p = S::p();
    acc.eval();
    let replay = || json!({"kind":"c18-av","set":S::SET,"shape":shape,"v":v.iter().map(|x| x.to_vec()).collect::<Vec<_>>(),
        "c": ct.map(|(c, _)| c.to_vec()), "t1": ct.map(|(_, t)| t.iter().map(|x| x.to_vec()).collect::<Vec<_>>())});
    let mut want = schoolbook_matvec(a_co, v);
    if let Some((c, t1)) = ct {
        for k in 0..p.k {
            let t1d: Poly = core::array::from_fn(|n| t1[k][n] * (1 << 13) % Q);
            let ctp = r::schoolbook_mul(c, &t1d);
            for n in 0..256 {
                want[k][n] = (want[k][n] - ctp[n]).rem_euclid(Q);
            }
        }
    }
    let got = guarded(|| {
        let v_hat = S::h_ntt_l(&v_to_i32(v));
        let av_hat = S::h_mat_vec_mul(a_hat, &v_hat);
        // how close did the inputs of the inverse NTT come to the 2^31 accumulation limit
        let mut max_raw: i64 = 0;
        let inp: Vec<P> = match ct {
            None => av_hat,
            Some((c, t1)) => {
                let c_hat = hk::ntt::<1>(&[to_i32(c)])[0];
                let t1_hat_mont = S::h_to_mont_k(&S::h_ntt_k(&v_to_i32(t1)));
                let shifted: Vec<P> = t1_hat_mont.iter().map(|t| core::array::from_fn(|n| hk::mont_reduce(i64::from(t[n]) << 13))).collect();
                let t1_d2_hat_mont = S::h_to_mont_k(&shifted);
                (0..p.k).map(|k| core::array::from_fn(|n| av_hat[k][n] - hk::mont_reduce(i64::from(c_hat[n]) * i64::from(t1_d2_hat_mont[k][n])))).collect()
            }
        };
        for row in &inp {
            let s: i64 = row.iter().map(|&x| i64::from(x)).sum();
            max_raw = max_raw.max(s.abs());
        }
        (S::h_inv_ntt_k(&inp), max_raw)
    });
    match got {
        Err(pi) => panic_violation(acc, "C18", "ntt/mat_vec_mul/inv_ntt", shape, &pi, replay()),
        Ok((g, max_raw)) => {
            acc.maxi("max_abs_sum_of_inv_ntt_inputs", max_raw);
            acc.maxi("max_abs_sum_of_inv_ntt_inputs_permille_of_2^31", max_raw * 1000 / (1i64 << 31));
            let mut ok = true;
            for k in 0..p.k {
                if !check_range_and_congruence(acc, shape, p.name, &g[k], &want[k], &replay) {
                    ok = false;
                    break;
                }
            }
            if ok {
                acc.count(&format!("ok_{shape}"), 1);
                acc.nontrivial(digest64(&[&[S::SET as u8], shape.as_bytes(), &v.iter().flat_map(|x| x.iter().flat_map(|c| c.to_le_bytes())).collect::<Vec<u8>>()]));
            }
        }
    }
}

fn sparse_challenge(g: &mut Prng, tau: usize) -> Poly {
    let mut c = r::ZERO;
    let mut placed = 0;
    while placed < tau {
        let i = g.below(256) as usize;
        if c[i] == 0 {
            c[i] = if g.below(2) == 0 { 1 } else { -1 };
            placed += 1;
        }
    }
    c
}

fn extremal(g: &mut Prng, lo: i64, hi: i64, pat: usize) -> Poly {
    core::array::from_fn(|i| match pat {
        0 => hi,
        1 => lo,
        2 => if i % 2 == 0 { hi } else { lo },
        3 => if g.below(2) == 0 { hi } else { lo },
        _ => g.range(lo, hi),
    })
}

fn run_set<S: PS>(ctx: &Ctx) -> Acc {
    let p = S::p();
    let mut acc = Acc::new();
    let thorough = ctx.thorough();
    // ---- (a) c*x shapes: basis polynomials x scalars, extremal and random -------------------------
    let ranges: [(&str, i64, i64); 3] = [("eta", -p.eta, p.eta), ("t0", -4095, 4096), ("t1", 0, 1023)];
    let accs = par_map(256, |i| {
        let mut a = Acc::new();
        let mut g = Prng::derive(ctx.seed, &format!("c18a-{}", p.name), i as u64);
        let c = sparse_challenge(&mut g, p.tau);
        for (rn, lo, hi) in ranges {
            // basis polynomial X^i times scalars
            for sc in [1i64, -1, hi, lo] {
                if sc == 0 || (rn == "t1" && sc < 0) {
                    continue;
                }
                let mut x = r::ZERO;
                x[i] = sc;
                shape_cx(&mut a, p.name, &format!("cx-{rn}-basis"), &c, &x);
            }
            let pat = i % 5;
            let x = extremal(&mut g, lo, hi, pat);
            shape_cx(&mut a, p.name, &format!("cx-{rn}-{}", ["allmax", "allmin", "alternating", "randsign", "random"][pat]), &c, &x);
        }
        // basis challenge against extremal x: linearity pins the transform itself
        let mut cb = r::ZERO;
        cb[i] = 1;
        let x = extremal(&mut g, -4095, 4096, 3);
        shape_cx(&mut a, p.name, "cx-basis-challenge", &cb, &x);
        a
    });
    for a in accs {
        acc.merge(a);
    }
    // ---- (b)/(c) matrix shapes ---------------------------------------------------------------------
    let n_jobs = ctx.budget(24, 2400) as usize;
    let accs = par_map(n_jobs, |i| {
        let mut a = Acc::new();
        let mut g = Prng::derive(ctx.seed, &format!("c18b-{}", p.name), i as u64);
        let rho: [u8; 32] = g.arr32();
        let a_hat_ref = r::expand_a(p, &rho);
        let a_hat: Vec<Vec<P>> = a_hat_ref.iter().map(|row| v_to_i32(row)).collect();
        let a_co = a_coeff(&a_hat_ref);
        let pat = i % 5;
        let names = ["allmax", "allmin", "alternating", "randsign", "random"];
        // y / z shape
        let v: Vec<Poly> = (0..p.l).map(|_| extremal(&mut g, -p.gamma1 + 1, p.gamma1, pat)).collect();
        shape_av::<S>(&mut a, &format!("Av-gamma1-{}", names[pat]), &a_hat, &a_co, &v, None);
        // s1 shape (keygen)
        let v: Vec<Poly> = (0..p.l).map(|_| extremal(&mut g, -p.eta, p.eta, pat)).collect();
        shape_av::<S>(&mut a, &format!("Av-eta-{}", names[pat]), &a_hat, &a_co, &v, None);
        // verify shape with extremal z (within the norm bound and at the encoding limit), c, t1
        let c = sparse_challenge(&mut g, p.tau);
        let t1: Vec<Poly> = (0..p.k).map(|_| extremal(&mut g, 0, 1023, pat)).collect();
        let v: Vec<Poly> = (0..p.l).map(|_| extremal(&mut g, -p.gamma1 + 1, p.gamma1, (pat + 3) % 5)).collect();
        shape_av::<S>(&mut a, &format!("Az-ct1-{}", names[pat]), &a_hat, &a_co, &v, Some((&c, &t1)));
        // basis vector in one column
        let mut v = vec![r::ZERO; p.l];
        v[i % p.l][(i * 7) % 256] = if i % 2 == 0 { p.gamma1 } else { -p.gamma1 + 1 };
        shape_av::<S>(&mut a, "Av-basis", &a_hat, &a_co, &v, None);
        a
    });
    for a in accs {
        acc.merge(a);
    }
    // ---- inverse NTT on constant and two-valued slot vectors over the whole call-site input range ---
    // Coefficient 0 of the inverse transform accumulates the plain sum of the 256 (reduced) inputs, so
    // a constant vector c * (1,..,1) is the extreme case for every c; the sweep covers the points where
    // an input reduction changes behaviour (multiples of 2^23 and of q, +-1, +-2) and a seeded stride.
    if S::SET == 87 || ctx.sets.len() == 1 {
        let lim = 8 * Q; // |x| < (l+1) q <= 8 q at every call site
        let mut cs: Vec<i64> = Vec::new();
        for k in -8i64..=8 {
            for d in -2i64..=2 {
                cs.push(k * (1 << 23) + d);
                cs.push(k * Q + d);
                cs.push(k * (1 << 23) + (1 << 22) + d);
            }
        }
        for e in 20..27 {
            cs.push((1i64 << e) - 1);
            cs.push(-(1i64 << e) + 1);
        }
        let mut g = Prng::derive(ctx.seed, "c18-const", 0);
        let stride = 20_011 + 2 * g.below(500) as i64;
        let mut c = -lim + g.below(stride as u64) as i64;
        while c < lim {
            cs.push(c);
            c += stride;
        }
        cs.retain(|c| c.abs() < lim);
        cs.sort_unstable();
        cs.dedup();
        let chunks = 64usize;
        let accs = par_map(chunks, |ch| {
            let mut a = Acc::new();
            for (idx, &c) in cs.iter().enumerate() {
                if idx % chunks != ch {
                    continue;
                }
                // constant plus an offset in one slot: the sum of the inputs (coefficient 0 before the final
                // scaling) then runs through every residue modulo 256 at every magnitude, which is what a
                // scaling step that looks at the low byte of its operand depends on
                let offs: Vec<i32> = if idx % 7 == 0 || c % (1 << 20) == 0 || c % Q == 0 { (1..=255).collect() } else { vec![1, 127, 128, 129, 255] };
                for &d in &offs {
                    for slot in [0usize, 255] {
                        if slot == 255 && offs.len() < 200 {
                            continue;
                        }
                        a.eval();
                        let mut inp: P = [c as i32; 256];
                        inp[slot] = (c as i32).wrapping_add(d);
                        if i64::from(inp[slot]).abs() >= lim {
                            inp[slot] = (c as i32).wrapping_sub(d);
                        }
                        let want = r::ntt_inv(&to_i64(&inp));
                        let replay = || json!({"kind":"c18-invntt-const","c":c,"pattern":"constant-plus-offset","offset":d,"slot":slot});
                        match guarded(|| hk::inv_ntt::<1>(&[inp])[0]) {
                            Err(pi) => panic_violation(&mut a, "C18", "inv_ntt", "inv_ntt-constant-plus-offset", &pi, replay()),
                            Ok(got) => {
                                if check_range_and_congruence(&mut a, "inv_ntt-constant-plus-offset", "all", &got, &want, &replay) {
                                    a.count("ok_inv_ntt-constant-plus-offset", 1);
                                    a.nontrivial(digest64(&[b"cpo", &c.to_le_bytes(), &d.to_le_bytes(), &[slot as u8]]));
                                }
                            }
                        }
                    }
                }
                for pat in 0..3usize {
                    a.eval();
                    let inp: P = core::array::from_fn(|i| match pat {
                        0 => c as i32,
                        1 => if i < 128 { c as i32 } else { -(c as i32) },
                        _ => if i % 2 == 0 { c as i32 } else { 0 },
                    });
                    let want = r::ntt_inv(&to_i64(&inp));
                    let shape = ["inv_ntt-constant", "inv_ntt-halves", "inv_ntt-even-slots"][pat];
                    let replay = || json!({"kind":"c18-invntt-const","c":c,"pattern":pat});
                    match guarded(|| hk::inv_ntt::<1>(&[inp])[0]) {
                        Err(pi) => panic_violation(&mut a, "C18", "inv_ntt", shape, &pi, replay()),
                        Ok(got) => {
                            if check_range_and_congruence(&mut a, shape, "all", &got, &want, &replay) {
                                a.count(&format!("ok_{shape}"), 1);
                                a.nontrivial(digest64(&[shape.as_bytes(), &c.to_le_bytes()]));
                            }
                        }
                    }
                }
            }
            a
        });
        for a in accs {
            acc.merge(a);
        }
        acc.count("inv_ntt_constant_sweep_values", cs.len() as u64);
    }
    // ---- forward NTT (and to_mont of its output) on constant / two-valued coefficient vectors over the
    // call-site input range |x| <= gamma1 (y, z), 2^12 (t0), 1023 (t1), eta (s1, s2), 1 (c)
    if S::SET == 87 || ctx.sets.len() == 1 {
        let mut cs: Vec<i64> = Vec::new();
        for e in 0..20 {
            for d in -1i64..=1 {
                cs.push((1i64 << e) + d);
                cs.push(-(1i64 << e) + d);
            }
        }
        for v in [0i64, 2, 4, 1023, 4095, 4096, (1 << 17) - 78, (1 << 19) - 196, (1 << 19) - 120] {
            cs.push(v);
            cs.push(-v);
        }
        let mut g = Prng::derive(ctx.seed, "c18-ntt-const", 0);
        for _ in 0..2000 {
            cs.push(g.range(-(1 << 19) + 1, 1 << 19));
        }
        cs.retain(|c| *c > -(1 << 19) && *c <= (1 << 19));
        cs.sort_unstable();
        cs.dedup();
        let accs = par_map(64, |ch| {
            let mut a = Acc::new();
            for (idx, &c) in cs.iter().enumerate() {
                if idx % 64 != ch {
                    continue;
                }
                for pat in 0..4usize {
                    a.eval();
                    let inp: P = core::array::from_fn(|i| match pat {
                        0 => c as i32,
                        1 => if i < 128 { c as i32 } else { -(c as i32) },
                        2 => if i % 2 == 0 { c as i32 } else { -(c as i32) },
                        _ => if (i / 2) % 2 == 0 { c as i32 } else { 0 },
                    });
                    let want = r::ntt(&to_i64(&inp));
                    let shape = ["ntt-constant", "ntt-halves", "ntt-alternating", "ntt-pairs"][pat];
                    let replay = || json!({"kind":"c18-ntt-const","c":c,"pattern":pat});
                    match guarded(|| { let h = hk::ntt::<1>(&[inp]); let m = hk::to_mont::<1>(&h); (h[0], m[0]) }) {
                        Err(pi) => panic_violation(&mut a, "C18", "ntt/to_mont", shape, &pi, replay()),
                        Ok((got, mont)) => {
                            let two32 = (1i64 << 32) % Q;
                            let bad = (0..256).find(|&n| i64::from(got[n]).rem_euclid(Q) != want[n] || i64::from(got[n]).abs() >= 67_058_539
                                || i64::from(mont[n]).rem_euclid(Q) != want[n] * two32 % Q);
                            match bad {
                                Some(n) => a.violation(&format!("C18|ntt-wrong|{shape}"), format!("forward NTT slot {n}: got {} (mont {}), want {} mod q, or outside the to_mont input range", got[n], mont[n], want[n]), replay()),
                                None => {
                                    a.count(&format!("ok_{shape}"), 1);
                                    a.nontrivial(digest64(&[shape.as_bytes(), &c.to_le_bytes()]));
                                }
                            }
                        }
                    }
                }
            }
            a
        });
        for a in accs {
            acc.merge(a);
        }
    }
    // ---- black-box maximisation of the forward NTT's output magnitude ------------------------------------
    // Output slot 0 is z[0] plus one Montgomery product per layer, and with z supported on
    // {0, 128, 64, 32, 16, 8, 4, 2, 1} the product of layer `len` depends only on z[len]. Scanning z[len]
    // over the allowed box through the real ntt hook finds, layer by layer, the value that makes the code's
    // own (unreduced) term largest / smallest; the combination is an in-range response polynomial that drives
    // slot 0 to the extreme the implementation can reach. It must stay inside to_mont's input range and the
    // whole pipeline must still equal the schoolbook product.
    {
        let bound = p.gamma1 - p.beta - 1;
        let n_scan = ctx.budget(40_000, 1_000_000) as i64;
        let lens = [128usize, 64, 32, 16, 8, 4, 2, 1];
        for sign in [1i64, -1] {
            let picks = par_map(lens.len(), |li| {
                let len = lens[li];
                let mut g = Prng::derive(ctx.seed, &format!("c18-max-{}-{len}", p.name), sign as u64 & 1);
                let mut best = (i64::MIN, 0i64);
                let stride = (2 * bound / n_scan).max(1);
                let mut v = -bound + g.below(stride as u64) as i64;
                while v <= bound {
                    let mut z: P = [0; 256];
                    z[len] = v as i32;
                    if let Ok(out) = guarded(|| hk::ntt::<1>(&[z])[0][0]) {
                        let val = sign * i64::from(out);
                        if val > best.0 {
                            best = (val, v);
                        }
                    }
                    v += stride;
                }
                best
            });
            let mut z: Poly = r::ZERO;
            z[0] = sign * bound;
            let mut predicted = sign * bound;
            for (li, &(val, v)) in picks.iter().enumerate() {
                z[lens[li]] = v;
                predicted += sign * val;
            }
            acc.eval();
            acc.maxi("max_forward_ntt_slot0_magnitude", predicted.abs());
            acc.maxi("max_forward_ntt_slot0_permille_of_to_mont_limit", predicted.abs() * 1000 / 67_058_539);
            let replay = || json!({"kind":"c18-ntt-max","set":S::SET,"z":z.to_vec(),"sign":sign});
            // the transform of the combined polynomial, its to_mont, and the product with a random matrix row
            let zi = to_i32(&z);
            match guarded(|| { let h = hk::ntt::<1>(&[zi]); let m = hk::to_mont::<1>(&h); (h[0], m[0]) }) {
                Err(pi) => panic_violation(&mut acc, "C18", "ntt/to_mont", "ntt-output-maximised", &pi, replay()),
                Ok((h, m)) => {
                    let want = r::ntt(&z);
                    let two32 = (1i64 << 32) % Q;
                    if let Some(n) = (0..256).find(|&n| i64::from(h[n]).rem_euclid(Q) != want[n] || i64::from(h[n]).abs() >= 67_058_539 || i64::from(m[n]).rem_euclid(Q) != want[n] * two32 % Q) {
                        acc.violation(&format!("C18|ntt-wrong|ntt-output-maximised|{}", p.name), format!("forward NTT / to_mont wrong or outside to_mont's input range at slot {n}: ntt {} mont {} want {} (slot 0 magnitude {})", h[n], m[n], want[n], h[0]), replay());
                    } else {
                        acc.count("ok_ntt-output-maximised", 1);
                        acc.nontrivial(digest64(&[&[S::SET as u8], b"nttmax", &predicted.to_le_bytes()]));
                    }
                }
            }
            // full A*z with z in every column, through the real pipeline
            let mut g = Prng::derive(ctx.seed, &format!("c18-max-av-{}", p.name), 0);
            let rho: [u8; 32] = g.arr32();
            let a_hat_ref = r::expand_a(p, &rho);
            let a_hat: Vec<Vec<P>> = a_hat_ref.iter().map(|row| v_to_i32(row)).collect();
            let a_co = a_coeff(&a_hat_ref);
            let v: Vec<Poly> = vec![z; p.l];
            shape_av::<S>(&mut acc, "Av-ntt-output-maximised", &a_hat, &a_co, &v, None);
        }
    }
    // ---- mat_vec_mul with arbitrary (not ExpandA-derived) matrix entries: all slots equal ---------------
    {
        let n_pairs = ctx.budget(6_000, 1_000_000) as usize;
        let accs = par_map(64, |ch| {
            let mut a = Acc::new();
            let mut g = Prng::derive(ctx.seed, &format!("c18-mv-{}", p.name), ch as u64);
            for _ in 0..n_pairs / 64 {
                a.eval();
                let av = *g.pick(&[Q - 1, 1, (Q - 1) / 2, 0]);
                let av = if g.below(2) == 0 { g.range(0, Q - 1) } else { av };
                let uv = g.range(-8 * Q + 1, 8 * Q - 1);
                let a_hat: Vec<Vec<P>> = (0..p.k).map(|_| (0..p.l).map(|_| [av as i32; 256]).collect()).collect();
                let u_hat: Vec<P> = (0..p.l).map(|_| [uv as i32; 256]).collect();
                // every slot of every row equals l * a * u mod q
                let slot = (p.l as i64 * ((av as i128 * uv as i128).rem_euclid(Q as i128) as i64)) % Q;
                let want = r::ntt_inv(&[slot; 256]);
                let replay = || json!({"kind":"c18-mv-const","set":S::SET,"a":av,"u":uv});
                match guarded(|| S::h_inv_ntt_k(&S::h_mat_vec_mul(&a_hat, &u_hat))) {
                    Err(pi) => panic_violation(&mut a, "C18", "mat_vec_mul/inv_ntt", "mv-constant-slots", &pi, replay()),
                    Ok(got) => {
                        if check_range_and_congruence(&mut a, "mv-constant-slots", p.name, &got[0], &want, &replay) && check_range_and_congruence(&mut a, "mv-constant-slots", p.name, &got[p.k - 1], &want, &replay) {
                            a.count("ok_mv-constant-slots", 1);
                            a.nontrivial(digest64(&[&[S::SET as u8], b"mvc", &av.to_le_bytes(), &uv.to_le_bytes()]));
                        }
                    }
                }
            }
            a
        });
        for a in accs {
            acc.merge(a);
        }
    }
    // ---- adversarial rows: fixtures, and a fresh search in thorough --------------------------------
    adversarial_fixtures::<S>(ctx, &mut acc);
    if thorough && !ctx.checked_build() && S::SET != 44 {
        let mut g = Prng::derive(ctx.seed, &format!("c18-adv-{}", p.name), 0);
        let rho = g.arr32();
        if let Some(w) = make_witness::<S>(&rho, ctx.opt_u64("rows", 2) as usize) {
            acc.count("fresh_adversarial_searches", 1);
            check_witness::<S>(&mut acc, "adversarial-fresh", &w);
            // leave it where the checked stage (and a human) can pick it up
            let dir = work_dir(ctx);
            let _ = std::fs::create_dir_all(&dir);
            let _ = std::fs::write(dir.join(format!("adv-fresh-{}.json", S::SET)), serde_json::to_string_pretty(&w).unwrap());
        } else {
            acc.inconclusive(format!("fresh adversarial search for {} produced no witness above 2^31", p.name));
        }
    }
    if ctx.checked_build() {
        // fresh witnesses written by the release stage of this run
        if let Ok(text) = std::fs::read_to_string(work_dir(ctx).join(format!("adv-fresh-{}.json", S::SET))) {
            if let Ok(w) = serde_json::from_str::<Value>(&text) {
                check_witness::<S>(&mut acc, "adversarial-fresh", &w);
            }
        }
    }
    acc
}

/// <verif root>/target/work (the verif root is the parent of the fixtures directory)
fn work_dir(ctx: &Ctx) -> std::path::PathBuf {
    ctx.fixtures.parent().map_or_else(|| std::path::PathBuf::from("/verif"), |p| p.to_path_buf()).join("target").join("work")
}

/// Search rho's matrix for an overflowing row; returns a fixture-format JSON value.
pub fn make_witness<S: PS>(rho: &[u8; 32], n_rows: usize) -> Option<Value> {
    let p = S::p();
    let (m, top) = if p.l >= 7 { (4usize, 2usize) } else { (8usize, 2usize) };
    let rows: Vec<usize> = (0..n_rows.min(p.k)).collect();
    let w = adv::search(p, rho, m, top, 24, &rows)?;
    let a_hat: Vec<Vec<P>> = r::expand_a(p, rho).iter().map(|row| v_to_i32(row)).collect();
    // exact row sum through the real mat_vec_mul, trying the kept alternatives of the last column
    // to also find a witness whose wrapped coefficient crosses a HighBits boundary
    let mut best: Option<(Vec<Poly>, i64, bool)> = None;
    let alt_cols = w.columns.len();
    let mut tried = 0;
    'outer: for ci in 0..alt_cols {
        for alt in 0..w.columns[ci].len() {
            let z: Vec<Poly> = (0..p.l).map(|j| adv::poly_from_choice(w.m, &w.columns[j][if j == ci { alt } else { 0 }].c)).collect();
            let z_hat = S::h_ntt_l(&v_to_i32(&z));
            let av = S::h_mat_vec_mul(&a_hat, &z_hat);
            let s: i64 = av[w.row].iter().map(|&x| i64::from(x)).sum();
            tried += 1;
            if s.abs() < (1i64 << 31) {
                continue;
            }
            // release-build symptom of the unrepaired code: coefficient 0 moves by 2^24 mod q = 16382
            let wa = r::w_approx(p, rho, &vec![r::ZERO; p.k], &r::ZERO, &z);
            let w0 = wa[w.row][0];
            let flips = r::high_bits(p.gamma2, w0) != r::high_bits(p.gamma2, w0 - 16382) || r::high_bits(p.gamma2, w0) != r::high_bits(p.gamma2, w0 + 16382);
            if best.is_none() || (flips && !best.as_ref().unwrap().2) {
                best = Some((z, s, flips));
            }
            if flips {
                break 'outer;
            }
        }
    }
    let (z, s, flips) = best?;
    let m_bytes = b"sparse-coset adversarial witness".to_vec();
    let mp = r::format_message(Mode::Pure, &m_bytes, &[]).unwrap();
    let h = vec![r::ZERO; p.k];
    let sig = gen::forge_degenerate(p, rho, &mp, &z, &h, None);
    Some(json!({
        "set": S::SET, "mode": "pure", "pk": hex(&gen::degenerate_pk(p, rho)), "message": hex(&m_bytes), "ctx": "",
        "sig": hex(&sig), "rho": hex(rho), "row": w.row, "m": w.m, "predicted_row_sum_over_q": w.predicted_sum as f64 / Q as f64,
        "exact_row_sum": s, "exact_row_sum_over_2^31": s as f64 / (1u64 << 31) as f64, "highbits_flip_when_wrapped": flips,
        "alternatives_tried": tried, "z_norm": r::inf_norm(&z), "bound_gamma1_minus_beta": p.gamma1 - p.beta,
        "expected_verify": true,
    }))
}

fn check_witness<S: PS>(acc: &mut Acc, class: &str, v: &Value) {
    let p = S::p();
    let pk = crate::util::unhex(v["pk"].as_str().unwrap_or(""));
    let sig = crate::util::unhex(v["sig"].as_str().unwrap_or(""));
    let m = crate::util::unhex(v["message"].as_str().unwrap_or(""));
    let cx = crate::util::unhex(v["ctx"].as_str().unwrap_or(""));
    if pk.len() != p.pk_len || sig.len() != p.sig_len {
        acc.inconclusive("malformed adversarial fixture".into());
        return;
    }
    // through verify(): must equal the reference (true)
    let got = crate::props::c02::check_case::<S>(acc, &format!("h-{class}"), &pk, &m, &cx, Mode::Pure, &sig, true);
    // C02's helper files mismatches under C02's name; re-key them for this property
    for vi in acc.violations.iter_mut() {
        if vi.signature.starts_with("C02|") && vi.signature.contains(class) {
            vi.signature = vi.signature.replacen("C02|", "C18|verify-", 1);
        }
    }
    if got == Some(true) {
        acc.count("adversarial_signatures_verified_true", 1);
    }
    // through the hooks: A*z against schoolbook, with the exact row sum as evidence
    let (rho, _t1) = r::pk_decode(p, &pk);
    let (_, z, _) = r::sig_decode(p, &sig);
    let a_hat_ref = r::expand_a(p, &rho);
    let a_hat: Vec<Vec<P>> = a_hat_ref.iter().map(|row| v_to_i32(row)).collect();
    let a_co = a_coeff(&a_hat_ref);
    let z: Vec<Poly> = z.iter().map(|zp| core::array::from_fn(|n| r::mod_pm(zp[n], Q))).collect();
    let c = r::sample_in_ball(&sig[..p.lambda / 4], p.tau);
    let t1 = vec![r::ZERO; p.k];
    shape_av::<S>(acc, &format!("Az-ct1-{class}"), &a_hat, &a_co, &z, Some((&c, &t1)));
    acc.count("adversarial_rows_checked", 1);
    if acc.samples.len() < 3 {
        acc.sample(json!({"class": class, "set": p.name, "row": v["row"], "exact_row_sum_over_2^31": v["exact_row_sum_over_2^31"], "z_norm": v["z_norm"], "bound": v["bound_gamma1_minus_beta"], "crate_verify": got, "reference_verify": true}));
    }
    let _ = to_i64;
}

fn adversarial_fixtures<S: PS>(ctx: &Ctx, acc: &mut Acc) {
    let dir = ctx.fixtures.join("adversarial");
    let Ok(rd) = std::fs::read_dir(&dir) else { return };
    let mut paths: Vec<_> = rd.flatten().map(|e| e.path()).filter(|p| p.extension().map_or(false, |e| e == "json")).collect();
    paths.sort();
    for path in paths {
        let Ok(text) = std::fs::read_to_string(&path) else { continue };
        let Ok(v) = serde_json::from_str::<Value>(&text) else { continue };
        if v["set"].as_u64() != Some(u64::from(S::SET)) {
            continue;
        }
        check_witness::<S>(acc, "adversarial-fixture", &v);
    }
}

/// `advgen`: produce fixtures/adversarial/<set>-<n>.json for fixed rhos (run once, committed).
pub fn run_advgen(ctx: &Ctx) -> StageOut {
    let mut acc = Acc::new();
    let n = ctx.opt_u64("count", 2);
    let dir = ctx.fixtures.join("adversarial");
    let _ = std::fs::create_dir_all(&dir);
    for &s in &ctx.sets {
        for i in 0..n {
            let mut g = Prng::derive(ctx.seed, "advgen", u64::from(s) * 100 + i);
            let rho = g.arr32();
            let w = match s {
                65 => make_witness::<crate::sets::S65>(&rho, ctx.opt_u64("rows", 3) as usize),
                87 => make_witness::<crate::sets::S87>(&rho, ctx.opt_u64("rows", 3) as usize),
                _ => None,
            };
            acc.eval();
            match w {
                Some(v) => {
                    eprintln!("advgen {s} #{i}: row {} sum/2^31 = {} flip = {}", v["row"], v["exact_row_sum_over_2^31"], v["highbits_flip_when_wrapped"]);
                    std::fs::write(dir.join(format!("mldsa{s}-{i}.json")), serde_json::to_string_pretty(&v).unwrap()).expect("write fixture");
                    acc.nontrivial(digest64(&[&rho]));
                }
                None => eprintln!("advgen {s} #{i}: no witness"),
            }
        }
    }
    StageOut::new("C18", "adversarial fixture generation", false, acc)
}
