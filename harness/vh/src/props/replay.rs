//! `vh replay --replay <file>`: re-run exactly the failing case recorded in a replay file.
//! Prints what the crate does now; exit 1 if the violation reproduces, 0 if it does not.

use crate::guard::guarded;
use crate::props::common::mode_from_name;
use crate::props::StageOut;
use crate::rngs::RecordingRng;
use crate::sets::PS;
use crate::util::{unhex, Acc};
use crate::Ctx;
use refimpl as r;
use serde_json::{json, Value};

fn s<'a>(v: &'a Value, k: &str) -> &'a str { v[k].as_str().unwrap_or("") }

fn one<S: PS>(case: &Value, acc: &mut Acc) -> Option<bool> {
    let p = S::p();
    let kind = s(case, "kind");
    match kind {
        "verify-diff" => {
            let (pk, m, cx, sig) = (unhex(s(case, "pk")), unhex(s(case, "message")), unhex(s(case, "ctx")), unhex(s(case, "sig")));
            let mode = mode_from_name(s(case, "mode"));
            let want = r::verify(p, &pk, &m, &sig, &cx, mode);
            let got = guarded(|| S::verify(&S::pk_from(&pk).expect("pk"), &m, &sig, &cx, mode));
            println!("replay verify-diff: reference={want} crate={:?}", got.as_ref().map_err(|e| format!("panic {} at {}", e.message, e.location)));
            Some(!matches!(got, Ok(g) if g == want))
        }
        "sign-diff" => {
            let (sk, m, cx) = (unhex(s(case, "sk")), unhex(s(case, "message")), unhex(s(case, "ctx")));
            let rnd: [u8; 32] = unhex(s(case, "rnd")).try_into().ok()?;
            let mode = mode_from_name(s(case, "mode"));
            let want = r::sign(p, &sk, &m, &cx, mode, &rnd);
            let got = guarded(|| S::sk_from(&sk).and_then(|o| S::sign(&o, &mut RecordingRng::new(&rnd), &m, &cx, mode)));
            let same = matches!((&got, &want), (Ok(Ok(g)), r::SignOut::Sig(w)) if g == w);
            println!("replay sign-diff: byte-identical to reference = {same}");
            Some(!same)
        }
        "keygen-diff" => {
            let xi: [u8; 32] = unhex(s(case, "xi")).try_into().ok()?;
            let (wpk, wsk) = r::keygen_internal(p, &xi);
            let got = guarded(|| {
                let (pk, sk) = S::keygen_seed(&xi);
                let (pk2, sk2) = S::keygen_rng(&mut RecordingRng::new(&xi)).expect("keygen");
                (S::pk_bytes(&pk), S::sk_bytes(&sk), S::pk_bytes(&pk2), S::sk_bytes(&sk2))
            });
            let same = matches!(&got, Ok((a, b, c, d)) if *a == wpk && *b == wsk && *c == wpk && *d == wsk);
            println!("replay keygen-diff: equal to reference KeyGen_internal = {same}");
            Some(!same)
        }
        "sk-reject" => {
            let sk = unhex(s(case, "sk"));
            let got = guarded(|| S::sk_from(&sk).is_ok());
            println!("replay sk-reject: accepted = {got:?} (reference says all s1/s2 fields in range = {})", r::sk_fields_in_range(p, &sk));
            Some(!matches!(got, Ok(false)))
        }
        "sk-roundtrip" | "c11-hostile" => {
            let sk = unhex(s(case, "sk"));
            let got = guarded(|| S::sk_from(&sk).map(|o| (S::sk_bytes(&o), S::pk_bytes(&S::derive(&o)))));
            let ok = matches!(&got, Ok(Ok((b, d))) if *b == sk && *d == r::pk_from_sk(p, &sk));
            println!("replay sk-roundtrip: accepted, re-serialises identically and derives the reference pk = {ok}");
            Some(!ok)
        }
        "pk-roundtrip" => {
            let pk = unhex(s(case, "pk"));
            let got = guarded(|| S::pk_from(&pk).map(|o| S::pk_bytes(&o)));
            let ok = matches!(&got, Ok(Ok(b)) if *b == pk);
            println!("replay pk-roundtrip: identical = {ok}");
            Some(!ok)
        }
        "c11-seed" => {
            let xi: [u8; 32] = unhex(s(case, "xi")).try_into().ok()?;
            let got = guarded(|| {
                let (pk, sk) = S::keygen_seed(&xi);
                (S::pk_bytes(&pk), S::pk_bytes(&S::derive(&sk)))
            });
            let same = matches!(&got, Ok((a, b)) if a == b);
            println!("replay c11-seed: derived public key serialises to the generated one = {same}");
            Some(!same)
        }
        "sig-codec" => {
            crate::props::c08::check_sig_codec::<S>(acc, "replay", &unhex(s(case, "sig")));
            Some(!acc.violations.is_empty())
        }
        _ => None,
    }
}

pub fn run(ctx: &Ctx) -> StageOut {
    let mut acc = Acc::new();
    let path = ctx.replay.clone().expect("--replay <file>");
    let text = std::fs::read_to_string(&path).expect("read replay file");
    let v: Value = serde_json::from_str(&text).expect("replay json");
    let case = &v["case"];
    println!("replaying {} :: {}", s(&v, "signature"), s(&v, "detail"));
    let set = case["set"].as_u64().unwrap_or(0);
    let direct = match set {
        44 => one::<crate::sets::S44>(case, &mut acc),
        65 => one::<crate::sets::S65>(case, &mut acc),
        87 => one::<crate::sets::S87>(case, &mut acc),
        _ => None,
    };
    let reproduced = match direct {
        Some(b) => b,
        None => {
            // generic fallback: re-run the recorded stage with the recorded tier and seed (workloads are
            // deterministic functions of the seed) and look for the same signature
            let stage = s(&v, "stage").to_string();
            let sub = Ctx {
                stage: stage.clone(),
                tier: s(&v, "tier").to_string(),
                seed: v["seed"].as_u64().unwrap_or(1),
                sets: ctx.sets.clone(),
                out: None,
                build: ctx.build.clone(),
                fixtures: ctx.fixtures.clone(),
                replay: None,
                opts: {
                    // stage options recorded with the case (the shared history stage needs its property)
                    let mut o = ctx.opts.clone();
                    if let Some(pv) = case["prop"].as_str() {
                        let _ = o.insert("prop".to_string(), pv.to_string());
                    }
                    o
                },
            };
            if stage.is_empty() || stage == "replay" || stage.starts_with("c14") || stage.starts_with("c17") || stage == "c12-strace" || stage == "c16-miri" {
                println!("this finding comes from an external-tool stage; re-run `bin/check {}` to reproduce", s(&v, "property"));
                std::process::exit(2);
            }
            println!("no direct replay for kind '{}': re-running stage {stage} (tier {}, seed {})", s(case, "kind"), sub.tier, sub.seed);
            let out = crate::props::dispatch(&sub);
            let sig = s(&v, "signature");
            out.acc.violations.iter().any(|x| x.signature == sig)
        }
    };
    println!("{}", if reproduced { "REPRODUCED" } else { "not reproduced on the current tree" });
    if reproduced {
        acc.violation(s(&v, "signature"), "reproduced".into(), json!({}));
    }
    StageOut::new(s(&v, "property"), "replay", false, acc)
}
