//! C01 — honest signatures always verify (all modes, sets, key provenances).

use crate::for_sets;
use crate::gen;
use crate::guard::guarded;
use crate::props::common::*;
use crate::props::StageOut;
use crate::sets::PS;
use crate::util::{digest64, hex_short, par_map, Acc, Prng};
use crate::Ctx;
use refimpl as r;
use refimpl::{Mode, MODES};
use serde_json::json;

const RULE: &str = "keys from seeds (fixed, random, and rare seeds whose t = A*s1+s2 wraps before reduction, found by an instrumented-reference scan) in every provenance (sk: generated, round-tripped; pk: generated, round-tripped, derived from either sk) x message/context shapes (rate/block boundaries, empty, prefix-imitating) x 4 modes x rnd classes; signature must be Ok, verify true under all four pk provenances, reference Verify true, RNG log = one try_fill_bytes(32). Non-trivial = distinct (set, key, sk provenance, mode, message, ctx, rnd) tuples whose signature was produced and checked under all pk provenances. A second pass signs 160000 (thorough 4000000; an eighth of that in the checked build) random (msg, rnd) pairs per set under about 10000 (thorough 250000) different keys - a fresh key every 16 signatures -, verifies every one of them under the generated and the derived public key, and re-checks the extremes (largest hint weight, largest |z|, most rejection iterations).";

pub fn run(ctx: &Ctx) -> StageOut {
    let mut acc = Acc::new();
    if !oracle_gate(ctx, &mut acc) {
        return StageOut::new("C01", RULE, false, acc);
    }
    for a in for_sets!(ctx.sets, run_set(ctx)) {
        acc.merge(a);
    }
    StageOut::new("C01", RULE, false, acc)
}

fn check_one<S: PS>(
    acc: &mut Acc, kb: &KeyBundle<S>, skp: usize, m: &[u8], cx: &[u8], mode: Mode, rnd: &[u8; 32],
    with_ref: bool, class: &str,
) {
    let p = S::p();
    acc.eval();
    let replay = |sig: Option<&[u8]>| {
        let mut v = case_json(S::SET, mode, &kb.pk_bytes, Some(&kb.sk_bytes), m, cx, Some(rnd), sig);
        v["kind"] = json!("c01");
        v["xi"] = json!(crate::util::hex(&kb.xi));
        v["sk_provenance"] = json!(SK_PROVS[skp]);
        v
    };
    let (res, log_ok) = match sign_replay::<S>(kb.sk(skp), m, cx, mode, rnd) {
        Ok(x) => x,
        Err(pi) => {
            panic_violation(acc, "C01", "sign", class, &pi, replay(None));
            return;
        }
    };
    let sig = match res {
        Ok(s) => s,
        Err(e) => {
            acc.violation(
                &format!("C01|sign-err|{}|{}|{}", p.name, mode.name(), SK_PROVS[skp]),
                format!("signing with an honest key returned Err({e})"),
                replay(None),
            );
            return;
        }
    };
    if !log_ok {
        acc.violation(
            &format!("C01|rng-log|{}|{}", p.name, mode.name()),
            "signing did not draw exactly one 32-byte try_fill_bytes request".into(),
            replay(Some(&sig)),
        );
    }
    let mut all_true = true;
    for pkp in 0..4 {
        match guarded(|| S::verify(kb.pk(pkp), m, &sig, cx, mode)) {
            Ok(true) => {}
            Ok(false) => {
                all_true = false;
                acc.violation(
                    &format!("C01|verify-false|{}|{}|sk={}|pk={}", p.name, mode.name(), SK_PROVS[skp], PK_PROVS[pkp]),
                    format!("honest signature rejected (sk {}, pk {})", SK_PROVS[skp], PK_PROVS[pkp]),
                    replay(Some(&sig)),
                );
            }
            Err(pi) => {
                all_true = false;
                panic_violation(acc, "C01", "verify", class, &pi, replay(Some(&sig)));
            }
        }
    }
    if with_ref {
        acc.count("reference_verifies", 1);
        if !r::verify(p, &kb.pk_bytes, m, &sig, cx, mode) {
            all_true = false;
            acc.violation(
                &format!("C01|ref-verify-false|{}|{}", p.name, mode.name()),
                "signature verifies under the crate but not under the FIPS 204 reference verifier".into(),
                replay(Some(&sig)),
            );
        }
    }
    if all_true {
        acc.nontrivial(digest64(&[&[S::SET as u8, skp as u8], mode.name().as_bytes(), &kb.xi, m, cx, rnd]));
        acc.count(&format!("ok_{}_{}", p.name, mode.name()), 1);
        let w = u64::from(sig[p.sig_len - 1]);
        acc.maxi(&format!("max_hint_weight_{}", p.name), w as i64);
        if acc.samples.len() < 3 {
            acc.sample(json!({"set": p.name, "mode": mode.name(), "class": class, "sk_provenance": SK_PROVS[skp],
                "xi": crate::util::hex(&kb.xi), "message": hex_short(m), "ctx": hex_short(cx), "rnd": crate::util::hex(rnd),
                "sig": hex_short(&sig), "verified_under": PK_PROVS, "hint_weight": w}));
        }
    }
}

fn run_set<S: PS>(ctx: &Ctx) -> Acc {
    let p = S::p();
    let rare: Vec<[u8; 32]> = rare_keygen_seeds(ctx, p, ctx.budget(24_000, 300_000) as usize).into_iter().filter(|r| r.tags.iter().any(|t| t.starts_with("t-wrap"))).map(|r| r.xi).take(12).collect();
    let n_plain = ctx.budget(6, 48) as usize;
    let n_seeds = n_plain + rare.len();
    let thorough = ctx.thorough();
    // ---- pass 1: shapes x modes x provenances -------------------------------------------------
    let accs = par_map(n_seeds, |si| {
        let mut acc = Acc::new();
        let mut g = Prng::derive(ctx.seed, &format!("c01-{}", p.name), si as u64);
        let xi = if si >= n_plain {
            acc.count("rare_wrap_seed_keys", 1);
            rare[si - n_plain]
        } else {
            match si {
                0 => [0u8; 32],
                1 => [0xFFu8; 32],
                _ => g.arr32(),
            }
        };
        let kb = match KeyBundle::<S>::new(xi) {
            Ok(k) => k,
            Err(pi) => {
                panic_violation(&mut acc, "C01", "keygen/serdes/derive", "honest", &pi, json!({"kind":"c01-keys","set":S::SET,"xi":crate::util::hex(&xi)}));
                return acc;
            }
        };
        let ctx_lens: Vec<usize> = if thorough { gen::CTX_LENGTHS.to_vec() } else {
            let mut v = vec![0usize, 255];
            v.push(*g.pick(&gen::CTX_LENGTHS));
            v
        };
        for &cl in &ctx_lens {
            let mut lens = gen::message_lengths(cl, false);
            if !thorough {
                // quick: 5 lengths per context: empty, a boundary pair, one random pick
                let mut pick = vec![0usize];
                for _ in 0..4 {
                    pick.push(*g.pick(&lens));
                }
                lens = pick;
            }
            if cl == 0 {
                // one long message (just past 4 KiB .. 1 MiB) per shape job
                let long = gen::long_message_lengths(&mut g);
                lens.push(long[si % long.len()]);
            }
            for &ml in &lens {
                let m = gen::message(&mut g, ml);
                let cx = gen::context(&mut g, cl);
                for mode in MODES {
                    let skp = g.below(2) as usize;
                    let rnd = gen::rnd_class(&mut g);
                    check_one::<S>(&mut acc, &kb, skp, &m, &cx, mode, &rnd, true, "shapes");
                    if thorough {
                        let rnd = gen::rnd_class(&mut g);
                        check_one::<S>(&mut acc, &kb, 1 - skp, &m, &cx, mode, &rnd, false, "shapes");
                    }
                }
            }
        }
        acc
    });
    let mut acc = Acc::merge_all(accs);

    // ---- pass 2: rare-event search -------------------------------------------------------------
    // Sign many random (message, rnd) pairs with one key, natively; keep the extremes and
    // put them through the full check (all provenances + reference).
    let n_scan = ctx.opt_u64("scan", ctx.budget(160_000, 4_000_000)) as usize / if ctx.checked_build() { 8 } else { 1 };
    let shards = 32usize;
    let xi = Prng::derive(ctx.seed, &format!("c01-scan-key-{}", p.name), 0).arr32();
    let kb = match KeyBundle::<S>::new(xi) {
        Ok(k) => k,
        Err(_) => return acc,
    };
    #[derive(Clone)]
    struct Cand { w: u64, zmax: i64, m: Vec<u8>, rnd: [u8; 32], xi: [u8; 32] }
    drop(kb);
    let found = par_map(shards, |sh| {
        // each worker builds its own key objects: key types need not be Sync
        let Ok(kb) = KeyBundle::<S>::new(xi) else { return (Vec::new(), Vec::new(), 0u64, 1u64, Vec::new()) };
        let mut g = Prng::derive(ctx.seed, &format!("c01-scan-{}", p.name), sh as u64);
        let mut best_w: Vec<Cand> = Vec::new();
        let mut best_z: Vec<Cand> = Vec::new();
        let mut n = 0u64;
        let mut fails = 0u64;
        let mut rejected: Vec<(Vec<u8>, [u8; 32], [u8; 32])> = Vec::new();
        // a fresh key every 16 signatures (shard 0 keeps the one fixed key): events that depend on a rare
        // property of the KEY need many keys, events that depend on the signing transcript many messages
        let mut kb_local: Option<KeyBundle<S>> = None;
        for it in 0..n_scan / shards {
            if sh != 0 && it % 16 == 0 {
                kb_local = KeyBundle::<S>::new(g.arr32()).ok();
            }
            let kb = kb_local.as_ref().unwrap_or(&kb);
            let m = g.bytes(16);
            let rnd = g.arr32();
            let Ok((Ok(sig), _)) = sign_replay::<S>(&kb.sk_gen, &m, &[], Mode::Pure, &rnd) else { fails += 1; continue };
            n += 1;
            // every scanned signature is verified (rare signer/verifier disagreements are about 1 in 10^4)
            match guarded(|| (S::verify(&kb.pk_gen, &m, &sig, &[], Mode::Pure), S::verify(&kb.pk_der, &m, &sig, &[], Mode::Pure))) {
                Ok((true, true)) => {}
                _ => rejected.push((m.clone(), rnd, kb.xi)),
            }
            let w = u64::from(sig[p.sig_len - 1]);
            let zmax = match S::h_sig_decode(&sig) {
                Ok((_, z, _)) => z.iter().flat_map(|q| q.iter()).map(|&c| i64::from(c).abs()).max().unwrap_or(0),
                Err(_) => -1,
            };
            let c = Cand { w, zmax, m, rnd, xi: kb.xi };
            best_w.push(c.clone());
            best_w.sort_by(|a, b| b.w.cmp(&a.w));
            best_w.truncate(3);
            best_z.push(c);
            best_z.sort_by(|a, b| b.zmax.cmp(&a.zmax));
            best_z.truncate(3);
        }
        (best_w, best_z, n, fails, rejected)
    });
    let mut all_w: Vec<Cand> = Vec::new();
    let mut all_z: Vec<Cand> = Vec::new();
    let mut all_rejected: Vec<(Vec<u8>, [u8; 32], [u8; 32])> = Vec::new();
    for (bw, bz, n, fails, rej) in found {
        all_w.extend(bw);
        all_z.extend(bz);
        all_rejected.extend(rej);
        acc.evals(n);
        acc.count("scan_signatures", n);
        if fails > 0 {
            acc.count("scan_sign_failures", fails);
        }
    }
    all_w.sort_by(|a, b| b.w.cmp(&a.w));
    all_z.sort_by(|a, b| b.zmax.cmp(&a.zmax));
    all_w.truncate(8);
    all_z.truncate(8);
    if let Some(c) = all_w.first() {
        acc.maxi(&format!("max_hint_weight_{}", p.name), c.w as i64);
        acc.mini(&format!("min_omega_minus_weight_{}", p.name), p.omega as i64 - c.w as i64);
    }
    if let Some(c) = all_z.first() {
        acc.mini(&format!("min_z_slack_to_bound_{}", p.name), (p.gamma1 - p.beta - 1) - c.zmax);
    }
    acc.count("scan_signatures_verified_generated_and_derived_pk", acc.get("scan_signatures"));
    // anything the scan saw rejected goes through the full monitored check (which files the violation)
    for (m, rnd, xi) in all_rejected.iter().take(6) {
        if let Ok(kbx) = KeyBundle::<S>::new(*xi) {
            check_one::<S>(&mut acc, &kbx, 0, m, &[], Mode::Pure, rnd, true, "scan-rejected");
        }
    }
    let mut max_iters = 0u64;
    for c in all_w.iter().chain(all_z.iter()) {
        let Ok(kbx) = KeyBundle::<S>::new(c.xi) else { continue };
        let kb = &kbx;
        for skp in 0..2 {
            check_one::<S>(&mut acc, kb, skp, &c.m, &[], Mode::Pure, &c.rnd, true, "rare-extremes");
        }
        // how many rejection iterations did this one take (reference instrumentation)
        r::events_reset();
        let mp = r::format_message(Mode::Pure, &c.m, &[]).unwrap();
        let _ = r::sign_internal(p, &kb.sk_bytes, &mp, &c.rnd);
        max_iters = max_iters.max(r::events_take().sign_iterations);
    }
    acc.maxi(&format!("max_sign_iterations_seen_{}", p.name), max_iters as i64);
    acc
}
