//! C09 — key serialisation round-trips exactly and preserves behaviour.

use crate::for_sets;
use crate::gen::{self, SPat, T0Pat};
use crate::guard::guarded;
use crate::props::common::*;
use crate::props::StageOut;
use crate::sets::PS;
use crate::util::{digest64, hex, hex_short, par_map, Acc, Prng};
use crate::Ctx;
use refimpl as r;
use refimpl::{Mode, Poly, MODES};
use serde_json::json;

const RULE: &str = "public keys: all-0, all-FF, t1 = 1023 everywhere (t1*2^d = q-1), every single coefficient slot of polynomial 0 and k-1 set to 0/1/1022/1023 over a random background, each single polynomial all-zero / all-1023 with the others random and the converse, random byte strings, honest keys -> try_from_bytes must be Ok and into_bytes must return the input bytes. Private keys: structure-aware accepted encodings (every s1/s2 coefficient -eta, +eta, alternating, zero, random; t0 all +2^12, all -2^12+1, random extremes, random; each single s1/s2/t0 polynomial at a range end with the others random; arbitrary rho/K/tr) and honest keys -> into_bytes returns the input (checked build: no self-check fires). Behaviour: original vs round-tripped sk give identical signatures for identical (M, ctx, mode, rnd); original vs round-tripped pk give identical decisions on valid signatures, bit-flipped mutants and degenerate-key boundary forgeries. Non-trivial = distinct key byte strings whose round trip was compared.";

pub fn run(ctx: &Ctx) -> StageOut {
    let mut acc = Acc::new();
    if !oracle_gate(ctx, &mut acc) {
        return StageOut::new("C09", RULE, false, acc);
    }
    for a in for_sets!(ctx.sets, run_set(ctx)) {
        acc.merge(a);
    }
    StageOut::new("C09", RULE, false, acc)
}

pub fn pk_roundtrip<S: PS>(acc: &mut Acc, class: &str, pk: &[u8]) {
    let p = S::p();
    acc.eval();
    let replay = || json!({"kind":"pk-roundtrip","set":S::SET,"pk":hex(pk),"class":class});
    match guarded(|| S::pk_from(pk).map(|o| S::pk_bytes(&o))) {
        Err(pi) => panic_violation(acc, "C09", "PublicKey::try_from_bytes/into_bytes", class, &pi, replay()),
        Ok(Err(e)) => acc.violation(&format!("C09|pk-rejected|{}|{class}", p.name), format!("public-key bytes rejected: {e}"), replay()),
        Ok(Ok(b)) => {
            if b != pk {
                let first = b.iter().zip(pk.iter()).position(|(x, y)| x != y).unwrap_or(0);
                acc.violation(&format!("C09|pk-roundtrip-differs|{}|{class}", p.name), format!("public key re-serialises differently (first differing byte {first})"), replay());
            } else {
                acc.count(&format!("pk_ok_{class}"), 1);
                acc.nontrivial(digest64(&[&[S::SET as u8], b"pk", pk]));
            }
        }
    }
}

pub fn sk_roundtrip<S: PS>(acc: &mut Acc, class: &str, sk: &[u8]) -> Option<S::Sk> {
    let p = S::p();
    acc.eval();
    let replay = || json!({"kind":"sk-roundtrip","set":S::SET,"sk":hex(sk),"class":class});
    match guarded(|| S::sk_from(sk).map(|o| (S::sk_bytes(&o), o))) {
        Err(pi) => {
            panic_violation(acc, "C09", "PrivateKey::try_from_bytes/into_bytes", class, &pi, replay());
            None
        }
        Ok(Err(e)) => {
            acc.violation(&format!("C09|sk-rejected|{}|{class}", p.name), format!("in-range private-key bytes rejected: {e} (see C10)"), replay());
            None
        }
        Ok(Ok((b, o))) => {
            if b != sk {
                let first = b.iter().zip(sk.iter()).position(|(x, y)| x != y).unwrap_or(0);
                acc.violation(&format!("C09|sk-roundtrip-differs|{}|{class}", p.name), format!("private key re-serialises differently (first differing byte {first})"), replay());
                None
            } else {
                acc.count(&format!("sk_ok_{class}"), 1);
                acc.nontrivial(digest64(&[&[S::SET as u8], b"sk", sk]));
                Some(o)
            }
        }
    }
}

fn run_set<S: PS>(ctx: &Ctx) -> Acc {
    let p = S::p();
    let mut acc = Acc::new();
    // ---------------- public keys: fixed extremal patterns -----------------------------------
    pk_roundtrip::<S>(&mut acc, "all-zero", &vec![0u8; p.pk_len]);
    pk_roundtrip::<S>(&mut acc, "all-ff", &vec![0xFFu8; p.pk_len]);
    {
        let t1: Vec<Poly> = vec![[1023i64; 256]; p.k];
        let mut g = Prng::derive(ctx.seed, "c09-fixed", 0);
        pk_roundtrip::<S>(&mut acc, "t1-all-1023", &r::pk_encode(&g.bytes(32), &t1));
        let t1: Vec<Poly> = vec![[1022i64; 256]; p.k];
        pk_roundtrip::<S>(&mut acc, "t1-all-1022", &r::pk_encode(&g.bytes(32), &t1));
        let t1: Vec<Poly> = vec![[1i64; 256]; p.k];
        pk_roundtrip::<S>(&mut acc, "t1-all-1", &r::pk_encode(&g.bytes(32), &t1));
    }
    // one whole polynomial degenerate (all-zero / all-ones fields), the others random — and the converse
    {
        let mut g = Prng::derive(ctx.seed, &format!("c09-polys-{}", p.name), 0);
        for k in 0..p.k {
            for (name, val) in [("zero", 0i64), ("1023", 1023)] {
                let mut t1: Vec<Poly> = (0..p.k).map(|_| core::array::from_fn(|_| g.range(0, 1023))).collect();
                t1[k] = [val; 256];
                pk_roundtrip::<S>(&mut acc, &format!("one-polynomial-all-{name}"), &r::pk_encode(&g.bytes(32), &t1));
                let mut t1: Vec<Poly> = vec![[val; 256]; p.k];
                t1[k] = core::array::from_fn(|_| g.range(0, 1023));
                pk_roundtrip::<S>(&mut acc, &format!("all-but-one-polynomial-{name}"), &r::pk_encode(&g.bytes(32), &t1));
            }
        }
        // private keys: one s1 / s2 / t0 polynomial at a range end (all-zero or all-ones field bytes), others random
        let top = 1i64 << 12;
        for which in 0..(p.l + 2 * p.k) {
            for hi in [true, false] {
                let mut s1: Vec<Poly> = (0..p.l).map(|_| gen::s_poly(&mut g, p.eta, SPat::Random)).collect();
                let mut s2: Vec<Poly> = (0..p.k).map(|_| gen::s_poly(&mut g, p.eta, SPat::Random)).collect();
                let mut t0: Vec<Poly> = (0..p.k).map(|_| gen::t0_poly(&mut g, T0Pat::Random)).collect();
                if which < p.l {
                    s1[which] = [if hi { p.eta } else { -p.eta }; 256];
                } else if which < p.l + p.k {
                    s2[which - p.l] = [if hi { p.eta } else { -p.eta }; 256];
                } else {
                    t0[which - p.l - p.k] = [if hi { top } else { -top + 1 }; 256];
                }
                let sk = r::sk_encode(p, &g.bytes(32), &g.bytes(32), &g.bytes(64), &s1, &s2, &t0);
                let _ = sk_roundtrip::<S>(&mut acc, "one-polynomial-at-range-end", &sk);
            }
        }
    }
    // public keys in which one t1 polynomial (or all of them) vanishes at an NTT point / on an aligned group
    // of 16 NTT coefficients: constructed in range, dense in the coefficient domain
    {
        let mut g = Prng::derive(ctx.seed, &format!("c09-nttsparse-{}", p.name), 0);
        for k in 0..p.k {
            for slot in [0usize, 1, 128, 255, g.below(256) as usize] {
                let mut t1: Vec<Poly> = (0..p.k).map(|_| core::array::from_fn(|_| g.range(0, 1023))).collect();
                t1[k] = gen::poly_zero_ntt_slot(&mut g, 0, 1023, slot);
                pk_roundtrip::<S>(&mut acc, "t1-polynomial-zero-at-an-ntt-point", &r::pk_encode(&g.bytes(32), &t1));
            }
            let grp = g.below(16) as usize;
            let mut t1: Vec<Poly> = (0..p.k).map(|_| core::array::from_fn(|_| g.range(0, 1023))).collect();
            t1[k] = gen::poly_zero_ntt_group(&mut g, 0, 1023, grp, 16);
            pk_roundtrip::<S>(&mut acc, "t1-polynomial-zero-on-an-ntt-group", &r::pk_encode(&g.bytes(32), &t1));
        }
        let t1: Vec<Poly> = (0..p.k).map(|_| gen::ntt_sparse_poly(&mut g, 0, 1023)).collect();
        pk_roundtrip::<S>(&mut acc, "every-t1-polynomial-ntt-sparse", &r::pk_encode(&g.bytes(32), &t1));
    }
    // public keys whose t1 polynomial drives the forward NTT's slot 0 to the largest / smallest value the
    // implementation can reach with 10-bit inputs (found through the real ntt hook, layer by layer): the
    // import-side precompute NTT(t1 * 2^d) sees its extreme operands here
    {
        let mut g = Prng::derive(ctx.seed, &format!("c09-nttmax-{}", p.name), 0);
        for sign in [1i64, -1] {
            let (poly, slot0) = ntt_slot0_maximiser(ctx.seed, 0, 1023, sign);
            acc.maxi("max_forward_ntt_slot0_magnitude_for_t1_inputs", slot0.abs());
            for k in [0usize, p.k - 1] {
                let mut t1: Vec<Poly> = (0..p.k).map(|_| core::array::from_fn(|_| g.range(0, 1023))).collect();
                t1[k] = poly;
                pk_roundtrip::<S>(&mut acc, "t1-polynomial-maximising-an-ntt-slot", &r::pk_encode(&g.bytes(32), &t1));
            }
            let t1: Vec<Poly> = vec![poly; p.k];
            pk_roundtrip::<S>(&mut acc, "t1-polynomial-maximising-an-ntt-slot", &r::pk_encode(&g.bytes(32), &t1));
        }
    }
    // single-coefficient extremes
    let slot_jobs = 256usize;
    let accs = par_map(slot_jobs, |c| {
        let mut a = Acc::new();
        let mut g = Prng::derive(ctx.seed, &format!("c09-slot-{}", p.name), c as u64);
        for poly in [0, p.k - 1] {
            for v in [0i64, 1, 1022, 1023] {
                let mut t1: Vec<Poly> = (0..p.k).map(|_| core::array::from_fn(|_| g.range(0, 1023))).collect();
                t1[poly][c] = v;
                pk_roundtrip::<S>(&mut a, "single-coefficient-extreme", &r::pk_encode(&g.bytes(32), &t1));
            }
        }
        a
    });
    for a in accs {
        acc.merge(a);
    }
    // ---------------- random pk strings, hostile sk strings, behaviour ---------------------------
    let n_jobs = ctx.budget(32, 1024) as usize;
    let per_job_pk = ctx.budget(60, 2000) as usize;
    let accs = par_map(n_jobs, |ji| {
        let mut a = Acc::new();
        let mut g = Prng::derive(ctx.seed, &format!("c09-{}", p.name), ji as u64);
        for _ in 0..per_job_pk {
            pk_roundtrip::<S>(&mut a, "random-bytes", &g.bytes(p.pk_len));
        }
        // hostile accepted private keys
        let spats = [SPat::AllMinus, SPat::AllPlus, SPat::Alternating, SPat::Zero, SPat::Random, SPat::NttSparse];
        let tpats = [T0Pat::AllTop, T0Pat::AllBottom, T0Pat::RandomExtremes, T0Pat::Random, T0Pat::Zero, T0Pat::NttSparse, T0Pat::SparseSmall];
        let sp = spats[ji % 6];
        let tp = tpats[(ji / 6) % 6];
        let sk = gen::hostile_sk(&mut g, p, sp, tp);
        let _ = sk_roundtrip::<S>(&mut a, &format!("hostile-{sp:?}-{tp:?}"), &sk);
        // each single field at each in-range value on a random background
        let mut sk2 = gen::hostile_sk(&mut g, p, SPat::Random, T0Pat::Random);
        let poly = g.below((p.l + p.k) as u64) as usize;
        let coeff = *g.pick(&[0usize, 1, 127, 255, (ji * 7) % 256]);
        let raw = g.below((2 * p.eta + 1) as u64) as u8;
        gen::set_eta_field(p, &mut sk2, poly, coeff, raw);
        let _ = sk_roundtrip::<S>(&mut a, "single-field-in-range", &sk2);

        // honest key: round trip and behaviour
        let xi = g.arr32();
        let kb = match KeyBundle::<S>::new(xi) {
            Ok(k) => k,
            Err(pi) => {
                panic_violation(&mut a, "C09", "keygen/serdes", "honest", &pi, json!({"kind":"c01-keys","set":S::SET,"xi":hex(&xi)}));
                return a;
            }
        };
        let (want_pk, want_sk) = r::keygen_internal(p, &xi);
        a.eval();
        if kb.pk_bytes != want_pk || kb.sk_bytes != want_sk {
            a.violation(&format!("C09|generated-bytes-differ|{}", p.name), "into_bytes of generated keys differs from pkEncode/skEncode (see C04)".into(), json!({"kind":"keygen-diff","set":S::SET,"xi":hex(&xi)}));
        }
        pk_roundtrip::<S>(&mut a, "honest", &kb.pk_bytes);
        let _ = sk_roundtrip::<S>(&mut a, "honest", &kb.sk_bytes);
        // same signatures from generated vs round-tripped sk
        for mode in MODES {
            let m = gen::message(&mut g, *[0usize, 1, 64, 200].get(ji % 4).unwrap());
            let cx = gen::context(&mut g, *[0usize, 255, 9].get(ji % 3).unwrap());
            let rnd = gen::rnd_class(&mut g);
            a.eval();
            let s0 = sign_replay::<S>(&kb.sk_gen, &m, &cx, mode, &rnd);
            let s1 = sign_replay::<S>(&kb.sk_rt, &m, &cx, mode, &rnd);
            let replay = || {
                let mut v = case_json(S::SET, mode, &kb.pk_bytes, Some(&kb.sk_bytes), &m, &cx, Some(&rnd), None);
                v["kind"] = json!("c09-behaviour");
                v["xi"] = json!(hex(&xi));
                v
            };
            match (s0, s1) {
                (Ok((Ok(a0), _)), Ok((Ok(a1), _))) => {
                    if a0 != a1 {
                        a.violation(&format!("C09|sk-behaviour-differs|{}|{}", p.name, mode.name()), "generated and round-tripped private key produce different signatures for the same (M, ctx, mode, rnd)".into(), replay());
                        continue;
                    }
                    a.count("same_signature_gen_vs_roundtripped", 1);
                    // same decisions from generated vs round-tripped pk: valid, mutants
                    let mut probes: Vec<(Vec<u8>, Vec<u8>)> = vec![(a0.clone(), m.clone())];
                    for _ in 0..6 {
                        let mut s = a0.clone();
                        let bit = g.below(8 * s.len() as u64) as usize;
                        gen::flip_bit(&mut s, bit);
                        probes.push((s, m.clone()));
                    }
                    let mut m2 = m.clone();
                    m2.push(1);
                    probes.push((a0.clone(), m2));
                    for (s, mm) in probes {
                        a.eval();
                        let d0 = guarded(|| S::verify(&kb.pk_gen, &mm, &s, &cx, mode));
                        let d1 = guarded(|| S::verify(&kb.pk_rt, &mm, &s, &cx, mode));
                        match (d0, d1) {
                            (Ok(x), Ok(y)) if x == y => a.count(if x { "same_decision_true" } else { "same_decision_false" }, 1),
                            (Ok(x), Ok(y)) => a.violation(&format!("C09|pk-behaviour-differs|{}|{}", p.name, mode.name()), format!("generated pk says {x}, round-tripped pk says {y}"), replay()),
                            (Err(pi), _) | (_, Err(pi)) => panic_violation(&mut a, "C09", "verify", "behaviour", &pi, replay()),
                        }
                    }
                }
                (Err(pi), _) | (_, Err(pi)) => panic_violation(&mut a, "C09", "sign", "behaviour", &pi, replay()),
                _ => a.violation(&format!("C09|sign-err|{}", p.name), "honest signing failed (see C01)".into(), replay()),
            }
        }
        // degenerate-key boundary forgery: deserialised pk vs the same bytes deserialised again after a round trip
        if ji % 4 == 0 {
            let rho = g.bytes(32);
            let dpk = gen::degenerate_pk(p, &rho);
            let bound = p.gamma1 - p.beta;
            for spike in [bound - 1, bound] {
                let mp = r::format_message(Mode::Pure, b"c09", &[]).unwrap();
                let z = gen::z_with_spike(&mut g, p, 0, 0, spike, 100);
                let h = vec![r::ZERO; p.k];
                let sig = gen::forge_degenerate(p, &rho, &mp, &z, &h, None);
                a.eval();
                let d = guarded(|| {
                    let o1 = S::pk_from(&dpk).unwrap();
                    let o2 = S::pk_from(&S::pk_bytes(&o1)).unwrap();
                    (S::verify(&o1, b"c09", &sig, &[], Mode::Pure), S::verify(&o2, b"c09", &sig, &[], Mode::Pure))
                });
                match d {
                    Ok((x, y)) if x == y && x == (spike < bound) => a.count("degenerate_boundary_same_decision", 1),
                    Ok((x, y)) => a.violation(&format!("C09|degenerate-pk-behaviour|{}", p.name), format!("decisions {x}/{y} on a degenerate-key forgery with spike {spike} (bound {bound})"), json!({"kind":"verify-diff","set":S::SET,"mode":"pure","pk":hex(&dpk),"message":hex(b"c09"),"ctx":"","sig":hex(&sig),"class":"c09-degenerate"})),
                    Err(pi) => panic_violation(&mut a, "C09", "verify", "degenerate", &pi, json!({"kind":"verify-diff","set":S::SET,"mode":"pure","pk":hex(&dpk),"message":hex(b"c09"),"ctx":"","sig":hex(&sig),"class":"c09-degenerate"})),
                }
            }
        }
        if ji == 0 {
            a.sample(json!({"set": p.name, "pk_random_roundtrip": hex_short(&g.bytes(p.pk_len)), "sk_hostile_class": format!("{sp:?}/{tp:?}"), "sk_hostile": hex_short(&sk), "honest_xi": hex(&xi)}));
        }
        a
    });
    for a in accs {
        acc.merge(a);
    }
    acc
}
