//! C10 — malformed private keys are rejected at deserialisation (exhaustive single-field partition).

use crate::for_sets;
use crate::gen::{self, SPat, T0Pat};
use crate::guard::guarded;
use crate::props::common::*;
use crate::props::StageOut;
use crate::sets::PS;
use crate::util::{digest64, hex, hex_short, par_map, Acc, Prng};
use crate::Ctx;
use refimpl as r;
use serde_json::json;

const RULE: &str = "reject side, enumerated completely: for two base keys per set (an honest key and a random in-range key) every (vector s1/s2, polynomial, coefficient index, out-of-range raw field value 2*eta+1 .. 2^bitlen-1) single-field corruption -> PrivateKey::try_from_bytes must be Err; the same single-field corruptions over four extremal backgrounds (all other fields +eta, -eta, 0, alternating; quick: five coefficient indices per polynomial, thorough: all); plus random multi-field corruptions. Accept side: every field at each in-range value over a random background, random in-range keys with arbitrary rho/K/tr/t0 (incl. t0 range ends) -> must be Ok and into_bytes must return the input without tripping its range self-check (checked build). Non-trivial = distinct corrupted or in-range encodings evaluated.";

pub fn run(ctx: &Ctx) -> StageOut {
    let mut acc = Acc::new();
    for a in for_sets!(ctx.sets, run_set(ctx)) {
        acc.merge(a);
    }
    StageOut::new("C10", RULE, true, acc)
}

fn must_reject<S: PS>(acc: &mut Acc, class: &str, sk: &[u8], what: &str) {
    let p = S::p();
    acc.eval();
    let replay = || json!({"kind":"sk-reject","set":S::SET,"sk":hex(sk),"class":class,"what":what});
    match guarded(|| S::sk_from(sk).is_ok()) {
        Err(pi) => panic_violation(acc, "C10", "PrivateKey::try_from_bytes", class, &pi, replay()),
        Ok(true) => {
            // how does the accepted object behave? (into_bytes self-check in checked builds)
            let ser = guarded(|| S::sk_bytes(&S::sk_from(sk).unwrap()));
            let tail = match ser {
                Ok(_) => "into_bytes() then returns without complaint".to_string(),
                Err(pi) => format!("into_bytes() on the accepted key panics: {}", pi.message),
            };
            acc.violation(&format!("C10|malformed-sk-accepted|{}|{class}", p.name), format!("private key with {what} accepted; {tail}"), replay());
        }
        Ok(false) => {
            acc.count(&format!("rejected_{class}"), 1);
            acc.nontrivial(digest64(&[&[S::SET as u8], b"rej", sk]));
        }
    }
}

fn must_accept<S: PS>(acc: &mut Acc, class: &str, sk: &[u8]) {
    let p = S::p();
    acc.eval();
    let replay = || json!({"kind":"sk-roundtrip","set":S::SET,"sk":hex(sk),"class":class});
    match guarded(|| S::sk_from(sk).map(|o| S::sk_bytes(&o))) {
        Err(pi) => panic_violation(acc, "C10", "PrivateKey::try_from_bytes/into_bytes", class, &pi, replay()),
        Ok(Err(e)) => acc.violation(&format!("C10|wellformed-sk-rejected|{}|{class}", p.name), format!("private key with every s1/s2 field in range rejected: {e}"), replay()),
        Ok(Ok(b)) => {
            if b != sk {
                acc.violation(&format!("C10|accepted-sk-reserialises-differently|{}|{class}", p.name), "accepted key does not re-serialise to its input (see C09)".into(), replay());
            } else {
                acc.count(&format!("accepted_{class}"), 1);
                acc.nontrivial(digest64(&[&[S::SET as u8], b"acc", sk]));
            }
        }
    }
}

fn run_set<S: PS>(ctx: &Ctx) -> Acc {
    let p = S::p();
    let c = gen::eta_bits(p);
    let n_polys = p.l + p.k;
    let mut g = Prng::derive(ctx.seed, &format!("c10-{}", p.name), 0);
    let honest = r::keygen_internal(p, &g.arr32()).1;
    let random_in_range = gen::hostile_sk(&mut g, p, SPat::Random, T0Pat::Random);
    let bases = [("honest-base", honest), ("random-in-range-base", random_in_range)];
    let bad_raws: Vec<u8> = ((2 * p.eta + 1) as u8..(1u8 << c)).collect();
    let good_raws: Vec<u8> = (0..=(2 * p.eta) as u8).collect();

    // ---- reject side: complete single-field partition ----------------------------------------
    let accs = par_map(n_polys * 2, |j| {
        let mut a = Acc::new();
        let (bname, base) = &bases[j % 2];
        let poly = j / 2;
        let vec_name = if poly < p.l { "s1" } else { "s2" };
        for coeff in 0..256 {
            for &raw in &bad_raws {
                let mut sk = base.clone();
                gen::set_eta_field(p, &mut sk, poly, coeff, raw);
                debug_assert_eq!(gen::get_eta_field(p, &sk, poly, coeff), raw);
                let what = format!("{vec_name}[{}][{coeff}] raw field {raw} (value {})", if poly < p.l { poly } else { poly - p.l }, p.eta - i64::from(raw));
                must_reject::<S>(&mut a, &format!("single-field-{vec_name}-{bname}"), &sk, &what);
                if a.samples.is_empty() && coeff == 0 && raw == bad_raws[0] && poly == 0 {
                    a.sample(json!({"set": p.name, "base": bname, "corruption": what, "sk": hex_short(&sk), "expected": "Err"}));
                }
            }
        }
        a
    });
    let mut acc = Acc::merge_all(accs);
    acc.count("single_field_partition_size", (n_polys * 256 * bad_raws.len() * 2) as u64);

    // ---- the same partition over extremal backgrounds: every other field at +eta (raw 0), at -eta (raw
    // 2*eta), at 0, alternating: a decision that aggregates over fields or polynomials (sum, running
    // minimum, xor) instead of testing each field sees its most forgiving inputs here.
    // quick: coefficient indices {0, 1, 127, 255, one random}; thorough: all 256.
    let ext_bases: Vec<(String, Vec<u8>)> = [SPat::AllPlus, SPat::AllMinus, SPat::Zero, SPat::Alternating]
        .into_iter().map(|sp| (format!("{sp:?}-base"), gen::hostile_sk(&mut g, p, sp, T0Pat::Random))).collect();
    let extra_coeff = g.below(256) as usize;
    let accs = par_map(n_polys * ext_bases.len(), |j| {
        let mut a = Acc::new();
        let (bname, base) = &ext_bases[j % ext_bases.len()];
        let poly = j / ext_bases.len();
        let vec_name = if poly < p.l { "s1" } else { "s2" };
        let coeffs: Vec<usize> = if ctx.thorough() { (0..256).collect() } else { vec![0, 1, 127, 255, extra_coeff] };
        for coeff in coeffs {
            for &raw in &bad_raws {
                let mut sk = base.clone();
                gen::set_eta_field(p, &mut sk, poly, coeff, raw);
                let what = format!("{vec_name}[{}][{coeff}] raw field {raw} (value {}) over the {bname}", if poly < p.l { poly } else { poly - p.l }, p.eta - i64::from(raw));
                must_reject::<S>(&mut a, &format!("single-field-{vec_name}-{bname}"), &sk, &what);
            }
        }
        a
    });
    for a in accs {
        acc.merge(a);
    }

    // ---- reject side: multi-field and pattern corruptions -----------------------------------------
    let n_multi = ctx.budget(200, 200_000) as usize;
    let accs = par_map(16, |sh| {
        let mut a = Acc::new();
        let mut g = Prng::derive(ctx.seed, &format!("c10-multi-{}", p.name), sh as u64);
        for _ in 0..n_multi / 16 {
            let mut sk = gen::hostile_sk(&mut g, p, SPat::Random, T0Pat::Random);
            let n = 1 + g.below(40) as usize;
            for _ in 0..n {
                let poly = g.below(n_polys as u64) as usize;
                let coeff = g.below(256) as usize;
                let raw = *g.pick(&bad_raws);
                gen::set_eta_field(p, &mut sk, poly, coeff, raw);
            }
            must_reject::<S>(&mut a, "multi-field", &sk, &format!("{n} random out-of-range fields"));
        }
        // every field of one whole polynomial at the maximum raw value (all-ones bytes)
        let mut sk = gen::hostile_sk(&mut g, p, SPat::Random, T0Pat::Random);
        let poly = g.below(n_polys as u64) as usize;
        for coeff in 0..256 {
            gen::set_eta_field(p, &mut sk, poly, coeff, (1u8 << c) - 1);
        }
        must_reject::<S>(&mut a, "whole-polynomial-all-ones", &sk, "a polynomial of all-ones fields");
        // random bytes in the s1/s2 area: out of range with overwhelming probability
        let mut sk = gen::hostile_sk(&mut g, p, SPat::Random, T0Pat::Random);
        let end = 128 + n_polys * 32 * c;
        let rb = g.bytes(end - 128);
        sk[128..end].copy_from_slice(&rb);
        if !r::sk_fields_in_range(p, &sk) {
            must_reject::<S>(&mut a, "random-bytes-in-short-vectors", &sk, "uniformly random s1/s2 bytes");
        }
        a
    });
    for a in accs {
        acc.merge(a);
    }

    // ---- accept side ----------------------------------------------------------------------------
    let accs = par_map(n_polys, |poly| {
        let mut a = Acc::new();
        let mut g = Prng::derive(ctx.seed, &format!("c10-acc-{}", p.name), poly as u64);
        let base = gen::hostile_sk(&mut g, p, SPat::Random, T0Pat::Random);
        let stride = if ctx.thorough() { 1 } else { 8 };
        let mut coeff = poly % stride;
        while coeff < 256 {
            for &raw in &good_raws {
                let mut sk = base.clone();
                gen::set_eta_field(p, &mut sk, poly, coeff, raw);
                must_accept::<S>(&mut a, "single-field-in-range", &sk);
            }
            coeff += stride;
        }
        for (si, sp) in [SPat::AllMinus, SPat::AllPlus, SPat::Alternating, SPat::Zero, SPat::Random, SPat::NttSparse].into_iter().enumerate() {
            for (ti, tp) in [T0Pat::AllTop, T0Pat::AllBottom, T0Pat::RandomExtremes, T0Pat::Random, T0Pat::Zero].into_iter().enumerate() {
                if (poly + si + ti) % 3 == 0 || ctx.thorough() {
                    let sk = gen::hostile_sk(&mut g, p, sp, tp);
                    must_accept::<S>(&mut a, &format!("pattern-{sp:?}-{tp:?}"), &sk);
                }
            }
        }
        a
    });
    for a in accs {
        acc.merge(a);
    }
    acc
}
