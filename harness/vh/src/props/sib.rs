//! Search for commitment-hash values c~ whose SampleInBall run consumes unusually many bytes (many
//! index rejections). Such values cannot be steered (c~ only seeds SHAKE256), so they are found by
//! brute force once and kept as fixtures (fixtures/sib/*.json) for C13, C02 and C08.

use crate::props::StageOut;
use crate::util::{hex, par_map, Acc, Prng};
use crate::Ctx;
use serde_json::json;
use sha3::digest::{ExtendableOutput, Update, XofReader};
use sha3::Shake256;

/// number of index bytes SampleInBall squeezes after the 8 sign bytes
pub fn sib_bytes(seed: &[u8], tau: usize) -> usize {
    let mut h = Shake256::default();
    h.update(seed);
    let mut rd = h.finalize_xof();
    let mut buf = [0u8; 8 + 512];
    rd.read(&mut buf);
    let mut pos = 8;
    for i in (256 - tau)..=255 {
        loop {
            let j = buf[pos] as usize;
            pos += 1;
            if j <= i {
                break;
            }
            if pos >= buf.len() {
                return pos - 8;
            }
        }
    }
    pos - 8
}

pub fn run(ctx: &Ctx) -> StageOut {
    let mut acc = Acc::new();
    let n_total = ctx.opt_u64("n", 200_000_000);
    let dir = ctx.fixtures.join("sib");
    let _ = std::fs::create_dir_all(&dir);
    for &set in &ctx.sets {
        let p = refimpl::params(set);
        let len = p.lambda / 4;
        let shards = 256usize;
        let res = par_map(shards, |sh| {
            let mut g = Prng::derive(ctx.seed, &format!("sibsearch-{set}"), sh as u64);
            let mut best: Vec<(usize, Vec<u8>)> = Vec::new();
            let mut seed = g.bytes(len);
            for it in 0..(n_total / shards as u64) {
                // cheap variation: counter in the first 8 bytes
                seed[..8].copy_from_slice(&(it ^ g.next_u64().rotate_left((it % 63) as u32)).to_le_bytes());
                let b = sib_bytes(&seed, p.tau);
                if best.len() < 4 || b > best[best.len() - 1].0 {
                    best.push((b, seed.clone()));
                    best.sort_by(|x, y| y.0.cmp(&x.0));
                    best.truncate(4);
                }
            }
            best
        });
        let mut all: Vec<(usize, Vec<u8>)> = res.into_iter().flatten().collect();
        all.sort_by(|x, y| y.0.cmp(&x.0));
        all.truncate(8);
        acc.evals(n_total);
        for (i, (b, s)) in all.iter().enumerate() {
            eprintln!("sibsearch {set}: #{i} index bytes {b} (tau {}, rejections {})", p.tau, b - p.tau);
            acc.distinct_enumerated += 1;
            let _ = std::fs::write(dir.join(format!("mldsa{set}-{i}.json")), serde_json::to_string_pretty(&json!({"set": set, "c_tilde": hex(s), "index_bytes": b, "tau": p.tau, "rejections": b - p.tau, "candidates_searched": n_total})).unwrap());
        }
    }
    StageOut::new("sibsearch", "brute-force search for c~ with extreme SampleInBall consumption", false, acc)
}
