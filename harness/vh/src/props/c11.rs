//! C11 — the public key derived from a private key equals the generated one.

use crate::for_sets;
use crate::gen::{self, SPat, T0Pat};
use crate::guard::guarded;
use crate::props::common::*;
use crate::props::StageOut;
use crate::sets::PS;
use crate::util::{digest64, hex, par_map, Acc, Prng};
use crate::Ctx;
use refimpl as r;
use refimpl::{Mode, MODES};
use serde_json::json;

const RULE: &str = "for seeds (fixed, random, and rare seeds found by an instrumented-reference scan whose t = A*s1 + s2 wraps past q or below 0 before reduction) x sk provenance {generated, round-tripped}: get_public_key().into_bytes() must equal the generated pk bytes and the reference pk; the derived key, the generated key and try_from_bytes(pk bytes) must return the same boolean on valid signatures of all four modes (must be true: catches a wrong cached tr), on bit-flipped mutants, on signatures under another key and on wrong-context probes. Hostile accepted private keys (arbitrary tr/t0; plus keys CONSTRUCTED so that t = A*s1+s2 wraps past q / below 0 exactly at coefficient 0, 1, 127, 128, 254 or 255 of the first or last polynomial): derived pk bytes must equal the reference pkEncode(rho, Power2Round(A s1 + s2).t1). Volume pass: for 250 000 (quick) / 8 000 000 (thorough) further seeds per set, get_public_key of the generated private key must serialise to the generated public key (bytes only, distinct seeds counted by enumeration). Non-trivial = distinct (seed, sk provenance) pairs whose derived key matched in bytes and in every decision.";

pub fn run(ctx: &Ctx) -> StageOut {
    let mut acc = Acc::new();
    if !oracle_gate(ctx, &mut acc) {
        return StageOut::new("C11", RULE, false, acc);
    }
    for a in for_sets!(ctx.sets, run_set(ctx)) {
        acc.merge(a);
    }
    StageOut::new("C11", RULE, false, acc)
}

fn run_set<S: PS>(ctx: &Ctx) -> Acc {
    let p = S::p();
    // seeds whose A*s1 + s2 wraps past q / below 0 before reduction (about 1 in 10^4) come first:
    // the derivation recomputes t and must reduce it exactly as key generation does
    let rare: Vec<[u8; 32]> = rare_keygen_seeds(ctx, p, ctx.budget(24_000, 300_000) as usize).into_iter().filter(|r| r.tags.iter().any(|t| t.starts_with("t-wrap"))).map(|r| r.xi).collect();
    let n_jobs = ctx.budget(24, 2400) as usize + rare.len();
    let accs = par_map(n_jobs, |ji| {
        let mut acc = Acc::new();
        let mut g = Prng::derive(ctx.seed, &format!("c11-{}", p.name), ji as u64);
        let xi = if ji < rare.len() {
            acc.count("rare_wrap_seeds_checked", 1);
            rare[ji]
        } else {
            match ji - rare.len() {
                0 => [0u8; 32],
                1 => [0xFFu8; 32],
                _ => g.arr32(),
            }
        };
        let kb = match KeyBundle::<S>::new(xi) {
            Ok(k) => k,
            Err(pi) => {
                panic_violation(&mut acc, "C11", "keygen/serdes/derive", "honest", &pi, json!({"kind":"c01-keys","set":S::SET,"xi":hex(&xi)}));
                return acc;
            }
        };
        let (ref_pk, _) = r::keygen_internal(p, &xi);
        let other = KeyBundle::<S>::new(g.arr32()).ok();
        for (prov, der) in [("generated", &kb.pk_der), ("roundtripped", &kb.pk_der_rt)] {
            acc.eval();
            let replay = |what: &str| json!({"kind":"c11","set":S::SET,"xi":hex(&xi),"sk_provenance":prov,"what":what});
            let der_bytes = match guarded(|| S::pk_bytes(der)) {
                Ok(b) => b,
                Err(pi) => {
                    panic_violation(&mut acc, "C11", "PublicKey::into_bytes", "derived", &pi, replay("into_bytes"));
                    continue;
                }
            };
            let mut ok = true;
            if der_bytes != kb.pk_bytes || der_bytes != ref_pk {
                ok = false;
                acc.violation(&format!("C11|derived-bytes-differ|{}|{prov}", p.name), format!("get_public_key() of the {prov} private key serialises differently from the generated public key"), replay("bytes"));
            }
            // decisions
            for mode in MODES {
                let m = gen::message(&mut g, 33);
                let cl = *g.pick(&[0usize, 4, 255]);
                let cx = gen::context(&mut g, cl);
                let rnd = g.arr32();
                let Ok((Ok(sig), _)) = sign_replay::<S>(&kb.sk_gen, &m, &cx, mode, &rnd) else {
                    acc.inconclusive("honest signing failed (see C01)".into());
                    continue;
                };
                let mut probes: Vec<(&str, Vec<u8>, Vec<u8>, Vec<u8>, Option<bool>)> = vec![("valid", sig.clone(), m.clone(), cx.clone(), Some(true))];
                for _ in 0..4 {
                    let mut s = sig.clone();
                    let bit = g.below(8 * s.len() as u64) as usize;
                        gen::flip_bit(&mut s, bit);
                    probes.push(("mutant", s, m.clone(), cx.clone(), None));
                }
                let mut cx2 = cx.clone();
                cx2.push(0);
                if cx2.len() <= 255 {
                    probes.push(("wrong-ctx", sig.clone(), m.clone(), cx2, None));
                }
                if let Some(o) = &other {
                    if let Ok((Ok(s2), _)) = sign_replay::<S>(&o.sk_gen, &m, &cx, mode, &rnd) {
                        probes.push(("other-key", s2, m.clone(), cx.clone(), None));
                    }
                }
                for (pname, s, mm, cc, must) in probes {
                    acc.eval();
                    let d = guarded(|| (S::verify(der, &mm, &s, &cc, mode), S::verify(&kb.pk_gen, &mm, &s, &cc, mode), S::verify(&kb.pk_rt, &mm, &s, &cc, mode)));
                    let rp = || {
                        let mut v = case_json(S::SET, mode, &kb.pk_bytes, Some(&kb.sk_bytes), &mm, &cc, None, Some(&s));
                        v["kind"] = json!("c11-decision");
                        v["xi"] = json!(hex(&xi));
                        v["sk_provenance"] = json!(prov);
                        v["probe"] = json!(pname);
                        v
                    };
                    match d {
                        Err(pi) => {
                            ok = false;
                            panic_violation(&mut acc, "C11", "verify", pname, &pi, rp());
                        }
                        Ok((a, b, c)) => {
                            if a != b || b != c || must.map_or(false, |w| a != w) {
                                ok = false;
                                acc.violation(&format!("C11|decisions-differ|{}|{prov}|{pname}|{}", p.name, mode.name()), format!("derived={a} generated={b} deserialised={c} on a {pname} probe"), rp());
                            } else {
                                acc.count(&format!("same_decision_{pname}_{a}"), 1);
                            }
                        }
                    }
                }
            }
            if ok {
                acc.nontrivial(digest64(&[&[S::SET as u8], prov.as_bytes(), &xi]));
                if acc.samples.len() < 2 {
                    acc.sample(json!({"set": p.name, "xi": hex(&xi), "sk_provenance": prov, "derived_pk_sha256": crate::util::sha256_hex(&der_bytes), "generated_pk_sha256": crate::util::sha256_hex(&kb.pk_bytes), "decisions_compared": "valid x4 modes, 4 mutants each, wrong ctx, other key"}));
                }
            }
        }
        // hostile accepted encodings: derived pk must be the FIPS function of (rho, s1, s2)
        let sp = *g.pick(&[SPat::AllMinus, SPat::AllPlus, SPat::Alternating, SPat::Zero, SPat::Random, SPat::NttSparse]);
        let tp = *g.pick(&[T0Pat::AllTop, T0Pat::AllBottom, T0Pat::RandomExtremes, T0Pat::Random, T0Pat::NttSparse]);
        let hsk = gen::hostile_sk(&mut g, p, sp, tp);
        acc.eval();
        let want = r::pk_from_sk(p, &hsk);
        let rp = || json!({"kind":"c11-hostile","set":S::SET,"sk":hex(&hsk)});
        match guarded(|| S::sk_from(&hsk).map(|s| S::pk_bytes(&S::derive(&s)))) {
            Err(pi) => panic_violation(&mut acc, "C11", "get_public_key", "hostile-sk", &pi, rp()),
            Ok(Err(e)) => acc.violation(&format!("C11|sk-rejected|{}", p.name), format!("in-range private key rejected: {e} (see C10)"), rp()),
            Ok(Ok(b)) => {
                if b != want {
                    acc.violation(&format!("C11|hostile-derived-differs|{}|{sp:?}", p.name), "public key derived from an accepted (not honestly generated) private key is not pkEncode(rho, t1(A s1 + s2))".into(), rp());
                } else {
                    acc.count("hostile_derived_matches_reference", 1);
                    acc.nontrivial(digest64(&[&[S::SET as u8], b"hostile", &hsk]));
                }
            }
        }
        // accepted keys constructed so that t = A*s1 + s2 wraps before reduction at a chosen coefficient
        // (first, last and middle positions of the first and last polynomial, both directions)
        if ji < 24 {
            let positions = [0usize, 255, 1, 254, 127, 128];
            let n = positions[ji % 6];
            let k = if (ji / 6) % 2 == 0 { 0 } else { p.k - 1 };
            let high = (ji / 12) % 2 == 0;
            if let Some(wsk) = gen::wrap_sk(&mut g, p, k, n, high) {
                acc.eval();
                let want = r::pk_from_sk(p, &wsk);
                let rp = || json!({"kind":"c11-hostile","set":S::SET,"sk":hex(&wsk),"wrap_at":[k, n],"high":high});
                match guarded(|| S::sk_from(&wsk).map(|s| S::pk_bytes(&S::derive(&s)))) {
                    Err(pi) => panic_violation(&mut acc, "C11", "get_public_key", "wrap-at-chosen-coefficient", &pi, rp()),
                    Ok(Err(e)) => acc.violation(&format!("C11|sk-rejected|{}", p.name), format!("in-range private key rejected: {e} (see C10)"), rp()),
                    Ok(Ok(b)) => {
                        if b != want {
                            acc.violation(&format!("C11|wrap-derived-differs|{}|n={n}", p.name), format!("derived public key differs from pkEncode(rho, t1(A s1 + s2)) for a key whose t wraps at polynomial {k} coefficient {n} ({})", if high { ">= q" } else { "< 0" }), rp());
                        } else {
                            acc.count("constructed_wrap_keys_match_reference", 1);
                            acc.nontrivial(digest64(&[&[S::SET as u8], b"wrapsk", &wsk]));
                        }
                    }
                }
            } else {
                acc.count("wrap_key_construction_failed", 1);
            }
        }
        let _ = Mode::Pure;
        acc
    });
    let mut acc = Acc::merge_all(accs);
    // ---- volume pass: derived == generated, bytes only, no reference in the loop (C04 ties generation to the
    // reference): an event of probability ~1e-7 per key inside the derivation is within reach of a few
    // million keys (quick 250 000 per set: a sample; thorough 8 000 000 per set)
    let n_vol = ctx.opt_u64("vol", ctx.budget(250_000, 8_000_000)) as usize / if ctx.checked_build() { 8 } else { 1 };
    let chunks = 256usize;
    let accs = par_map(chunks, |c| {
        let mut a = Acc::new();
        let mut g = Prng::derive(ctx.seed, &format!("c11-volume-{}", p.name), c as u64);
        let mut xi = g.arr32();
        let mut bad: Option<[u8; 32]> = None;
        let n = n_vol / chunks;
        let mut done = 0u64;
        let res = guarded(|| {
            for i in 0..n as u64 {
                xi[..8].copy_from_slice(&(i ^ ((c as u64) << 40)).to_le_bytes());
                let (pk, sk) = S::keygen_seed(&xi);
                let d = S::derive(&sk);
                if S::pk_bytes(&d) != S::pk_bytes(&pk) && bad.is_none() {
                    bad = Some(xi);
                }
                done += 1;
            }
        });
        a.evals(done);
        a.count("volume_pass_keys", done);
        a.distinct_enumerated += done;
        if let Err(pi) = res {
            panic_violation(&mut a, "C11", "keygen_from_seed/get_public_key", "volume", &pi, json!({"kind":"c11-seed","set":S::SET,"xi":hex(&xi)}));
        }
        if let Some(x) = bad {
            a.violation(&format!("C11|derived-differs-from-generated|{}|volume", p.name), format!("get_public_key() of the key generated from seed {} serialises differently from the generated public key", hex(&x)), json!({"kind":"c11-seed","set":S::SET,"xi":hex(&x)}));
        }
        a
    });
    for a in accs {
        acc.merge(a);
    }
    acc
}
