//! C13 — no input can make the library panic (checked build: debug assertions + overflow checks).

use crate::for_sets;
use crate::gen::{self, SPat, T0Pat, HINT_MALS};
use crate::guard::{guarded, panic_key, short_loc};
use crate::props::StageOut;
use crate::rngs::RecordingRng;
use crate::sets::PS;
use crate::util::{digest64, hex, hex_short, par_map, Acc, Prng};
use crate::Ctx;
use refimpl as r;
use refimpl::{Mode, Poly, MODES};
use serde_json::{json, Value};

const RULE: &str = "every public call (try_from_bytes x2, into_bytes x2, get_public_key, try_sign_with_rng, try_hash_sign_with_rng x3, verify, hash_verify x3, _internal_sign, _internal_verify, keygen_from_seed, try_keygen_with_rng) is driven, under catch_unwind with a location-recording panic hook, with: random byte strings; structure-aware hostile private keys that deserialisation accepts (s1/s2 at range ends, t0 at range ends / unrelated to the key, arbitrary rho/K/tr) which are then serialised, derived and used to sign in all modes; signatures with z at both encoding range ends, alternating, and boundary forgeries; every hint malformation; public keys all-0 / all-FF / t1=0 / t1=1023; sparse-coset adversarial fixtures; signatures whose c~ drives SampleInBall through an extreme number of index rejections (fixtures/sib, brute-force search over 1.2e10 candidates); messages up to 1 MiB (thorough 16 MiB) and contexts up to 70000 bytes. A stage that dies on SIGABRT/SIGSEGV is a violation, a watchdog kill is inconclusive. Non-trivial = distinct (API call, input digest) pairs executed without unwinding.";

pub fn run(ctx: &Ctx) -> StageOut {
    let mut acc = Acc::new();
    for a in for_sets!(ctx.sets, run_set(ctx)) {
        acc.merge(a);
    }
    StageOut::new("C13", RULE, false, acc)
}

/// Run one library call; a panic becomes a violation keyed on (location, api, class).
fn call<T, F: FnOnce() -> T>(acc: &mut Acc, api: &str, class: &str, inputs: &dyn Fn() -> Value, digest: u64, f: F) -> Option<T> {
    acc.eval();
    match guarded(f) {
        Ok(v) => {
            acc.nontrivial(digest ^ digest64(&[api.as_bytes()]));
            acc.count(&format!("calls_{api}"), 1);
            Some(v)
        }
        Err(pi) => {
            let loc = short_loc(&pi.location);
            let mut rp = inputs();
            rp["kind"] = json!("c13");
            rp["api"] = json!(api);
            rp["class"] = json!(class);
            rp["panic_location"] = json!(loc);
            rp["panic_message"] = json!(pi.message);
            acc.violation(&format!("C13|panic|{}|{api}|{class}", panic_key(&pi)), format!("{api} panicked at {loc}: {}", pi.message), rp);
            None
        }
    }
}

/// Everything one can do with a private-key byte string.
fn sk_storm<S: PS>(acc: &mut Acc, g: &mut Prng, class: &str, sk_b: &[u8], sign_too: bool) {
    let d = digest64(&[&[S::SET as u8], sk_b]);
    let inp = || json!({"set": S::SET, "sk": hex(sk_b)});
    let Some(Ok(sk)) = call(acc, "PrivateKey::try_from_bytes", class, &inp, d, || S::sk_from(sk_b)) else { return };
    acc.count("accepted_private_keys", 1);
    let _ = call(acc, "PrivateKey::into_bytes", class, &inp, d, || S::sk_bytes(&sk));
    if let Some(pk) = call(acc, "get_public_key", class, &inp, d, || S::derive(&sk)) {
        let _ = call(acc, "PublicKey::into_bytes(derived)", class, &inp, d, || S::pk_bytes(&pk));
    }
    if sign_too {
        for mode in MODES {
            let ml = *g.pick(&[0usize, 1, 64]);
            let m = g.bytes(ml);
            let cl = *g.pick(&[0usize, 255]);
            let cx = g.bytes(cl);
            let rnd = g.arr32();
            let inp2 = || json!({"set": S::SET, "sk": hex(sk_b), "message": hex(&m), "ctx": hex(&cx), "rnd": hex(&rnd), "mode": mode.name()});
            let api = if mode == Mode::Pure { "try_sign_with_rng" } else { "try_hash_sign_with_rng" };
            let res = call(acc, api, class, &inp2, d ^ digest64(&[&m, &cx, &rnd]), || {
                let mut rng = RecordingRng::new(&rnd);
                S::sign(&sk, &mut rng, &m, &cx, mode)
            });
            if let Some(Err(_)) = res {
                acc.count("sign_returned_err", 1);
            }
        }
        let rnd = g.arr32();
        let m = g.bytes(9);
        let inp3 = || json!({"set": S::SET, "sk": hex(sk_b), "message": hex(&m), "rnd": hex(&rnd)});
        let _ = call(acc, "_internal_sign", class, &inp3, d, || S::internal_sign(&sk, &m, &[], rnd));
    }
}

/// Everything one can do with (pk bytes, message, ctx, sig bytes).
fn verify_storm<S: PS>(acc: &mut Acc, class: &str, pk_b: &[u8], m: &[u8], cx: &[u8], sig: &[u8]) {
    let d = digest64(&[&[S::SET as u8], pk_b, m, cx, sig]);
    let inp = || json!({"set": S::SET, "pk": hex(pk_b), "message": hex(m), "ctx": hex(cx), "sig": hex(sig)});
    let Some(Ok(pk)) = call(acc, "PublicKey::try_from_bytes", class, &inp, d, || S::pk_from(pk_b)) else { return };
    let _ = call(acc, "PublicKey::into_bytes", class, &inp, d, || S::pk_bytes(&pk));
    for mode in MODES {
        let api = if mode == Mode::Pure { "verify" } else { "hash_verify" };
        let inpm = || {
            let mut v = inp();
            v["mode"] = json!(mode.name());
            v
        };
        if let Some(true) = call(acc, api, class, &inpm, d ^ digest64(&[mode.name().as_bytes()]), || S::verify(&pk, m, sig, cx, mode)) {
            acc.count("verify_returned_true", 1);
        }
    }
    let _ = call(acc, "_internal_verify", class, &inp, d, || S::internal_verify(&pk, m, sig, cx));
}

fn z_pattern(g: &mut Prng, p: &r::Params, which: usize) -> Vec<Poly> {
    let g1 = p.gamma1;
    (0..p.l)
        .map(|_| {
            core::array::from_fn(|i| match which {
                0 => g1,
                1 => -g1 + 1,
                2 => if i % 2 == 0 { g1 } else { -g1 + 1 },
                3 => if g.below(2) == 0 { g1 } else { -g1 + 1 },
                4 => if g.below(2) == 0 { g1 - p.beta - 1 } else { -(g1 - p.beta - 1) },
                5 => 0,
                _ => g.range(-g1 + 1, g1),
            })
        })
        .collect()
}

fn run_set<S: PS>(ctx: &Ctx) -> Acc {
    let p = S::p();
    let n_jobs = ctx.budget(32, 320) as usize;
    let thorough = ctx.thorough();
    let accs = par_map(n_jobs, |ji| {
        let mut acc = Acc::new();
        let mut g = Prng::derive(ctx.seed, &format!("c13-{}", p.name), ji as u64);
        let xi = g.arr32();
        let (hpk, hsk) = r::keygen_internal(p, &xi);
        let off = p.sig_len - (p.omega + p.k);

        // ---- keygen entry points --------------------------------------------------------------
        let inp = || json!({"set": S::SET, "xi": hex(&xi)});
        let _ = call(&mut acc, "keygen_from_seed", "seed", &inp, digest64(&[&xi]), || S::keygen_seed(&xi));
        let _ = call(&mut acc, "try_keygen_with_rng", "seed", &inp, digest64(&[&xi]), || {
            let mut rng = RecordingRng::new(&xi);
            S::keygen_rng(&mut rng).is_ok()
        });

        // ---- constant-time test entry point (feature dudect): keygen + sign in CTEST mode ------
        for _ in 0..if !S::HAS_DUDECT { 0 } else if thorough { 24 } else { 8 } {
            let script = g.bytes(64);
            let m = g.bytes(8);
            let inp = || json!({"set": S::SET, "rng_script": hex(&script), "message": hex(&m)});
            let _ = call(&mut acc, "dudect_keygen_sign_with_rng", "random-rng-output", &inp, digest64(&[&script, &m]), || {
                let mut rng = RecordingRng::new(&script);
                S::dudect(&mut rng, &m).is_ok()
            });
        }

        // ---- private keys ----------------------------------------------------------------------
        let rb = g.bytes(p.sk_len);
        sk_storm::<S>(&mut acc, &mut g, "random-bytes", &rb, true);
        sk_storm::<S>(&mut acc, &mut g, "all-zero", &vec![0u8; p.sk_len], ji == 0);
        sk_storm::<S>(&mut acc, &mut g, "all-ff", &vec![0xFFu8; p.sk_len], ji == 0);
        sk_storm::<S>(&mut acc, &mut g, "honest", &hsk, true);
        let spats = [SPat::AllMinus, SPat::AllPlus, SPat::Alternating, SPat::Zero, SPat::Random, SPat::NttSparse];
        // RandomExtremes t0 (thousands of rejection iterations) is exercised by the c13f4 stage
        let tpats = [T0Pat::AllTop, T0Pat::AllBottom, T0Pat::Random, T0Pat::Zero, T0Pat::NttSparse, T0Pat::SparseSmall];
        let sp = spats[ji % 5];
        let tp = tpats[(ji / 5) % 4];
        let sk = gen::hostile_sk(&mut g, p, sp, tp);
        sk_storm::<S>(&mut acc, &mut g, &format!("hostile-{sp:?}-{tp:?}"), &sk, true);
        // honest key with a few t0 fields changed (consistent s, inconsistent t0)
        let mut sk2 = hsk.clone();
        let t0_off = 128 + (p.l + p.k) * 32 * gen::eta_bits(p);
        for _ in 0..1 + g.below(4) {
            let i = t0_off + g.below((p.sk_len - t0_off) as u64) as usize;
            sk2[i] ^= 1 << g.below(8);
        }
        sk_storm::<S>(&mut acc, &mut g, "honest-with-t0-bitflips", &sk2, true);
        // a single out-of-range s field (must be rejected, and if accepted must not panic later)
        let mut sk3 = hsk.clone();
        gen::set_eta_field(p, &mut sk3, g.below((p.l + p.k) as u64) as usize, g.below(256) as usize, (1u8 << gen::eta_bits(p)) - 1);
        sk_storm::<S>(&mut acc, &mut g, "one-field-out-of-range", &sk3, true);

        // ---- public keys x signatures ----------------------------------------------------------
        let rho = g.bytes(32);
        let pks: Vec<(&str, Vec<u8>)> = vec![
            ("honest-pk", hpk.clone()),
            ("pk-all-zero", vec![0u8; p.pk_len]),
            ("pk-all-ff", vec![0xFFu8; p.pk_len]),
            ("pk-t1-zero", gen::degenerate_pk(p, &rho)),
            ("pk-t1-1023", r::pk_encode(&rho, &vec![[1023i64; 256]; p.k])),
            ("pk-random", g.bytes(p.pk_len)),
        ];
        let m = g.bytes(17);
        let cx = g.bytes(3);
        for zi in 0..7 {
            let z = z_pattern(&mut g, p, zi);
            let w = *g.pick(&[0usize, 1, p.omega]);
            let h = gen::hint_with_weight(&mut g, p, w, (zi % 3) as u64);
            let sig = r::sig_encode(p, &g.bytes(p.lambda / 4), &z, &h);
            let (pn, pk) = &pks[(ji + zi) % pks.len()];
            verify_storm::<S>(&mut acc, &format!("z-pattern-{zi}-{pn}"), pk, &m, &cx, &sig);
            if zi == 0 {
                for mal in HINT_MALS {
                    if let Some(y2) = gen::malform_hint(&mut g, p, &sig[off..], mal) {
                        let mut s2 = sig.clone();
                        s2[off..].copy_from_slice(&y2);
                        verify_storm::<S>(&mut acc, &format!("hint-{mal:?}"), pk, &m, &cx, &s2);
                    }
                }
            }
        }
        // forged-valid boundary signature (reaches the very end of verify with true)
        {
            let mp = r::format_message(Mode::Pure, &m, &cx).unwrap();
            let z = z_pattern(&mut g, p, 4);
            let h = gen::hint_with_weight(&mut g, p, p.omega, 1);
            let sig = gen::forge_degenerate(p, &rho, &mp, &z, &h, None);
            verify_storm::<S>(&mut acc, "forged-boundary-valid", &gen::degenerate_pk(p, &rho), &m, &cx, &sig);
        }
        // random signature bytes; random z with random hint section; hint section of all 0xFF / counts 0xFF
        let mut s = g.bytes(p.sig_len);
        verify_storm::<S>(&mut acc, "sig-random", &pks[ji % pks.len()].1, &m, &cx, &s);
        for b in s[off..].iter_mut() {
            *b = 0xFF;
        }
        verify_storm::<S>(&mut acc, "hint-all-ff", &hpk, &m, &cx, &s);
        for (i, b) in s[off..].iter_mut().enumerate() {
            *b = if i < p.omega { (i % 256) as u8 } else { p.omega as u8 };
        }
        verify_storm::<S>(&mut acc, "hint-ascending-all-in-first", &hpk, &m, &cx, &s);
        for (ai, y) in gen::ascending_hint_sections(&mut g, p).into_iter().enumerate() {
            let mut s2 = s.clone();
            s2[off..].copy_from_slice(&y);
            verify_storm::<S>(&mut acc, &format!("hint-ascending-whole-section-{ai}"), &hpk, &m, &cx, &s2);
        }
        verify_storm::<S>(&mut acc, "sig-all-zero", &hpk, &m, &cx, &vec![0u8; p.sig_len]);
        verify_storm::<S>(&mut acc, "sig-all-ff", &hpk, &m, &cx, &vec![0xFFu8; p.sig_len]);

        // ---- lengths ---------------------------------------------------------------------------
        if ji < 6 {
            let lens: [usize; 6] = [0, 255, 256, 257, 65_536, 70_000];
            let long_ctx = g.bytes(lens[ji]);
            verify_storm::<S>(&mut acc, "long-ctx", &hpk, &m, &long_ctx, &s);
            if let Ok(Ok(sk)) = guarded(|| S::sk_from(&hsk)) {
                for mode in MODES {
                    let inp = || json!({"set": S::SET, "sk": hex(&hsk), "message": hex(&m), "ctx_len": long_ctx.len(), "mode": mode.name()});
                    let _ = call(&mut acc, "sign(long ctx)", "long-ctx", &inp, digest64(&[&long_ctx, mode.name().as_bytes()]), || {
                        let mut rng = RecordingRng::new(&[1u8; 32]);
                        S::sign(&sk, &mut rng, &m, &long_ctx, mode).is_ok()
                    });
                    let inp = || json!({"set": S::SET, "ctx_len": long_ctx.len()});
                    let _ = call(&mut acc, "_internal_sign(long ctx)", "long-ctx", &inp, digest64(&[&long_ctx, b"i"]), || S::internal_sign(&sk, &m, &long_ctx, [0u8; 32]).is_ok());
                }
            }
        }
        if ji == 6 || ji == 7 {
            let big = if thorough && ji == 7 { 16 << 20 } else { 1 << 20 };
            let msg = vec![0xA7u8; big];
            if let Ok(Ok(sk)) = guarded(|| S::sk_from(&hsk)) {
                for mode in MODES {
                    let inp = || json!({"set": S::SET, "sk": hex(&hsk), "message_len": big, "mode": mode.name()});
                    let sig = call(&mut acc, "sign(long message)", "long-message", &inp, digest64(&[&(big as u64).to_le_bytes(), mode.name().as_bytes()]), || {
                        let mut rng = RecordingRng::new(&[2u8; 32]);
                        S::sign(&sk, &mut rng, &msg, &[], mode)
                    });
                    if let Some(Ok(sig)) = sig {
                        let pko = S::pk_from(&hpk).unwrap();
                        let _ = call(&mut acc, "verify(long message)", "long-message", &inp, digest64(&[&sig]), || S::verify(&pko, &msg, &sig, &[], mode));
                    }
                }
            }
        }
        if ji == 0 {
            acc.sample(json!({"set": p.name, "class": format!("hostile-{sp:?}-{tp:?}"), "sk": hex_short(&sk), "calls": ["try_from_bytes", "into_bytes", "get_public_key", "into_bytes(derived)", "try_sign_with_rng", "try_hash_sign_with_rng x3", "_internal_sign"], "panics": 0}));
        }
        acc
    });
    let mut acc = Acc::merge_all(accs);
    // signatures whose c~ makes SampleInBall reject unusually many indices (fixtures/sib), and the sampler hook itself
    for (ct, nbytes) in crate::props::common::sib_fixtures(ctx, S::SET) {
        let mut g = Prng::derive(ctx.seed, "c13-sib", nbytes);
        let z: Vec<Poly> = (0..p.l).map(|_| core::array::from_fn(|_| g.range(-100, 100))).collect();
        let sig = r::sig_encode(p, &ct, &z, &vec![r::ZERO; p.k]);
        let (hpk, _) = r::keygen_internal(p, &[9u8; 32]);
        verify_storm::<S>(&mut acc, "sample-in-ball-extreme-c-tilde", &hpk, b"m", b"", &sig);
        let inp = || json!({"set": S::SET, "c_tilde": hex(&ct)});
        let got = call(&mut acc, "sample_in_ball(hook)", "sample-in-ball-extreme-c-tilde", &inp, digest64(&[&ct]), || S::h_sample_in_ball(&ct, false));
        if let Some(c) = got {
            let want = r::sample_in_ball(&ct, p.tau);
            if (0..256).any(|i| i64::from(c[i]) != want[i]) {
                acc.violation(&format!("C13|sample-in-ball-differs|{}", p.name), "SampleInBall differs from Algorithm 29 on a c~ with many index rejections".into(), inp());
            }
        }
        acc.count("sample_in_ball_extreme_fixtures", 1);
        acc.maxi("max_sample_in_ball_index_bytes", nbytes as i64);
    }
    // adversarial fixtures through every verify entry point
    let dir = ctx.fixtures.join("adversarial");
    if let Ok(rd) = std::fs::read_dir(&dir) {
        for e in rd.flatten() {
            let Ok(text) = std::fs::read_to_string(e.path()) else { continue };
            let Ok(v) = serde_json::from_str::<Value>(&text) else { continue };
            if v["set"].as_u64() != Some(u64::from(S::SET)) {
                continue;
            }
            let pk = crate::util::unhex(v["pk"].as_str().unwrap_or(""));
            let sig = crate::util::unhex(v["sig"].as_str().unwrap_or(""));
            let m = crate::util::unhex(v["message"].as_str().unwrap_or(""));
            let cx = crate::util::unhex(v["ctx"].as_str().unwrap_or(""));
            verify_storm::<S>(&mut acc, "adversarial-fixture", &pk, &m, &cx, &sig);
            acc.count("adversarial_fixtures", 1);
        }
    }
    acc
}

/// c13f4 — signing with accepted private keys whose t0 fields are random range extremes: thousands
/// of rejection iterations; the call must end with a signature or an error, never a panic (checked
/// build: the overflow check on the 16-bit counter is the logical bound) and never a hang.
pub fn run_f4(ctx: &Ctx) -> StageOut {
    let mut acc = Acc::new();
    fn go<S: PS>(ctx: &Ctx, n: usize) -> Acc {
        let p = S::p();
        let accs = par_map(n, |i| {
            let mut acc = Acc::new();
            let mut g = Prng::derive(ctx.seed, &format!("c13f4-{}", p.name), i as u64);
            let sp = *g.pick(&[SPat::Random, SPat::AllPlus, SPat::Alternating]);
            let sk_b = gen::hostile_sk(&mut g, p, sp, T0Pat::RandomExtremes);
            let Ok(Ok(sk)) = guarded(|| S::sk_from(&sk_b)) else {
                acc.violation(&format!("C13|hostile-sk-rejected|{}", p.name), "in-range key rejected (see C10)".into(), json!({"kind":"sk-roundtrip","set":S::SET,"sk":hex(&sk_b)}));
                return acc;
            };
            let m = g.bytes(16);
            let rnd = g.arr32();
            let mode = MODES[i % 4];
            let inp = || json!({"set": S::SET, "sk": hex(&sk_b), "message": hex(&m), "ctx": "", "rnd": hex(&rnd), "mode": mode.name()});
            let t0 = std::time::Instant::now();
            let res = call(&mut acc, if mode == Mode::Pure { "try_sign_with_rng" } else { "try_hash_sign_with_rng" }, "hostile-t0-random-extremes", &inp, digest64(&[&sk_b, &m, &rnd]), || {
                let mut rng = RecordingRng::new(&rnd);
                S::sign(&sk, &mut rng, &m, &[], mode)
            });
            match res {
                Some(Ok(_)) => acc.count("hostile_t0_sign_ok", 1),
                Some(Err(_)) => acc.count("hostile_t0_sign_err_too_many_rejections", 1),
                None => {}
            }
            acc.maxi("max_sign_wall_ms", t0.elapsed().as_millis() as i64);
            acc
        });
        Acc::merge_all(accs)
    }
    for s in &ctx.sets {
        let n = |q: u64, t: u64| ctx.budget(q, t) as usize;
        match *s {
            44 => acc.merge(go::<crate::sets::S44>(ctx, n(48, 768))),
            65 => acc.merge(go::<crate::sets::S65>(ctx, n(8, 128))),
            _ => acc.merge(go::<crate::sets::S87>(ctx, n(8, 128))),
        }
    }
    StageOut::new("C13", "sign calls with accepted private keys whose t0 coefficients are the range extremes with random signs (rejection-heavy); each must return Ok or Err without panicking; distinct = distinct (key, message, rnd)", false, acc)
}
