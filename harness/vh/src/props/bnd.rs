//! Search for signing inputs whose rejection loop meets a comparison exactly ON its bound while every
//! other test of that iteration passes ("lone exact rejections"): ||c t0||_inf = gamma2 (ML-DSA-44 only;
//! unreachable for 65/87 where tau * 2^12 < gamma2) and hint weight = omega + 1, plus accepted candidates
//! one below those bounds. An off-by-one in one of these comparisons changes the emitted candidate only
//! on such inputs. They cannot be steered through SHAKE, so they are found by running the instrumented
//! reference over tuned key families and many messages, and kept as fixtures (fixtures/bnd/*.json) that
//! C03 replays (crate signature must equal the reference's).

use crate::gen;
use crate::props::StageOut;
use crate::util::{hex, par_map, Acc, Prng};
use crate::Ctx;
use refimpl as r;
use refimpl::Poly;
use serde_json::{json, Value};

/// t0 families whose ||c t0||_inf lands around gamma2 often (ML-DSA-44: gamma2 = 95232, tau = 39)
fn family_t0(g: &mut Prng, p: &r::Params, fam: u64) -> Vec<Poly> {
    let mag = |g: &mut Prng, lo: i64, hi: i64| -> i64 {
        let m = g.range(lo, hi);
        if g.below(2) == 0 { m } else { -m }
    };
    (0..p.k)
        .map(|k| -> Poly {
            match fam {
                // two polynomials of large magnitude, the others zero
                0 => if k < 2 { core::array::from_fn(|_| mag(g, 3700, 3920)) } else { r::ZERO },
                // one polynomial at the very top, the others zero
                1 => if k == 0 { core::array::from_fn(|_| mag(g, 3900, 4095)) } else { r::ZERO },
                // three polynomials, slightly lower
                2 => if k < 3 { core::array::from_fn(|_| mag(g, 3400, 3700)) } else { r::ZERO },
                // two large polynomials, two small random ones
                _ => if k < 2 { core::array::from_fn(|_| mag(g, 3800, 4000)) } else { core::array::from_fn(|_| g.range(-300, 300)) },
            }
        })
        .collect()
}

pub fn run(ctx: &Ctx) -> StageOut {
    let mut acc = Acc::new();
    let n_total = ctx.opt_u64("n", 400_000);
    let want = ctx.opt_u64("want", 6) as usize;
    let dir = ctx.fixtures.join("bnd");
    let _ = std::fs::create_dir_all(&dir);
    let p = r::params(44);
    let shards = 64usize;
    let per = n_total / shards as u64;
    let res = par_map(shards, |sh| {
        let mut g = Prng::derive(ctx.seed, "bndsearch", sh as u64);
        let mut hits: Vec<Value> = Vec::new();
        let mut counts = [0u64; 8];
        let fam = (sh % 4) as u64;
        let mut done = 0u64;
        while done < per {
            // a fresh key every 2000 messages
            let s1: Vec<Poly> = (0..p.l).map(|_| gen::s_poly(&mut g, p.eta, gen::SPat::Random)).collect();
            let s2: Vec<Poly> = (0..p.k).map(|_| gen::s_poly(&mut g, p.eta, gen::SPat::Random)).collect();
            let t0 = family_t0(&mut g, p, fam);
            let sk = r::sk_encode(p, &g.bytes(32), &g.bytes(32), &g.bytes(64), &s1, &s2, &t0);
            for ctr in 0..2000u64 {
                if done >= per {
                    break;
                }
                done += 1;
                let m = ctr.to_le_bytes().to_vec();
                let rnd = [0u8; 32];
                let mp = r::format_message(r::Mode::Pure, &m, &[]).unwrap();
                r::events_reset();
                let sig = r::sign_internal_capped(p, &sk, &mp, &rnd, 4000);
                let e = r::events_take();
                counts[0] += 1;
                counts[1] += e.sign_iterations;
                let kinds = [("ct0-exact-neg", e.lone_exact_ct0_neg), ("ct0-exact-pos", e.lone_exact_ct0_pos), ("hint-omega-plus-1", e.lone_exact_hint),
                    ("accepted-ct0-gamma2-minus-1", e.accept_ct0_gamma2_minus_1), ("accepted-hint-omega", e.accept_hint_omega)];
                for (i, (name, n)) in kinds.iter().enumerate() {
                    if *n > 0 && sig.is_some() {
                        counts[2 + i] += 1;
                        // the two cheap kinds are plentiful: keep only a few of them
                        if i < 2 || i == 3 || hits.iter().filter(|h| h["event"] == *name).count() < 1 {
                            hits.push(json!({"set": 44, "event": name, "family": fam, "sk": hex(&sk), "message": hex(&m), "ctx": "", "mode": "pure", "rnd": hex(&rnd),
                                "iterations": e.sign_iterations, "sig_sha256": crate::util::sha256_hex(sig.as_ref().unwrap())}));
                        }
                    }
                }
            }
        }
        (hits, counts)
    });
    let mut all: Vec<Value> = Vec::new();
    let mut tot = [0u64; 8];
    for (h, c) in res {
        all.extend(h);
        for i in 0..8 {
            tot[i] += c[i];
        }
    }
    acc.evals(tot[0]);
    acc.count("signatures_searched", tot[0]);
    acc.count("reference_iterations", tot[1]);
    for (i, name) in ["ct0-exact-neg", "ct0-exact-pos", "hint-omega-plus-1", "accepted-ct0-gamma2-minus-1", "accepted-hint-omega"].iter().enumerate() {
        acc.count(&format!("hits_{name}"), tot[2 + i]);
    }
    // keep up to `want` per event kind
    let mut written = 0usize;
    for name in ["ct0-exact-neg", "ct0-exact-pos", "hint-omega-plus-1", "accepted-ct0-gamma2-minus-1", "accepted-hint-omega"] {
        for (i, h) in all.iter().filter(|h| h["event"] == name).take(want).enumerate() {
            let _ = std::fs::write(dir.join(format!("mldsa44-{name}-{i}.json")), serde_json::to_string_pretty(h).unwrap());
            written += 1;
            acc.distinct_enumerated += 1;
        }
    }
    eprintln!("bndsearch: {} signatures, {} iterations, hits {:?}, {written} fixtures written", tot[0], tot[1], &tot[2..7]);
    StageOut::new("bndsearch", "instrumented-reference search for signing inputs with a rejection comparison exactly on its bound", false, acc)
}

/// (event, sk, message, rnd) fixtures
pub fn fixtures(ctx: &Ctx, set: u32) -> Vec<(String, Vec<u8>, Vec<u8>, [u8; 32])> {
    let dir = ctx.fixtures.join("bnd");
    let Ok(rd) = std::fs::read_dir(&dir) else { return vec![] };
    let mut paths: Vec<_> = rd.flatten().map(|e| e.path()).collect();
    paths.sort();
    let mut out = Vec::new();
    for path in paths {
        let Ok(text) = std::fs::read_to_string(&path) else { continue };
        let Ok(v) = serde_json::from_str::<Value>(&text) else { continue };
        if v["set"].as_u64() != Some(u64::from(set)) {
            continue;
        }
        let (Some(ev), Some(sk), Some(m), Some(rnd)) = (v["event"].as_str(), v["sk"].as_str(), v["message"].as_str(), v["rnd"].as_str()) else { continue };
        let rb = crate::util::unhex(rnd);
        if rb.len() != 32 {
            continue;
        }
        let mut ra = [0u8; 32];
        ra.copy_from_slice(&rb);
        out.push((ev.to_string(), crate::util::unhex(sk), crate::util::unhex(m), ra));
    }
    out
}

/// `katfix`: writes <fixtures>/../kat/src/fixtures.rs — per parameter set an accepted private key with
/// (partly) extreme t0 together with a message and rnd for which the reference needs several hundred
/// rejection iterations, so that the known-answer program of C17 exercises the long-running signing path
/// (and its iteration bound) in every feature configuration, not only honest keys.
pub fn run_katfix(ctx: &Ctx) -> StageOut {
    let mut acc = Acc::new();
    let mut src = String::from("// generated by `vh katfix` (harness/vh/src/props/bnd.rs); do not edit\n// (set, private key hex, message hex, rnd hex, reference iterations, sha256 of the reference signature)\npub const HOSTILE: [(&str, &str, &str, &str, u32, &str); 3] = [\n");
    for set in [44u32, 65, 87] {
        let p = r::params(set);
        let pats: &[gen::T0Pat] = match set {
            65 => &[gen::T0Pat::RandomExtremes, gen::T0Pat::PartialExtremes(85)],
            _ => &[gen::T0Pat::PartialExtremes(85), gen::T0Pat::PartialExtremes(70)],
        };
        let found = par_map(64, |i| {
            let mut g = Prng::derive(ctx.seed, &format!("katfix-{set}"), i as u64);
            for _ in 0..40 {
                let sk = gen::hostile_sk(&mut g, p, gen::SPat::Random, pats[i % pats.len()]);
                let m = g.bytes(9);
                let rnd = g.arr32();
                let mp = r::format_message(r::Mode::Pure, &m, &[]).unwrap();
                r::events_reset();
                let sig = r::sign_internal_capped(p, &sk, &mp, &rnd, 3000);
                let it = r::events_take().sign_iterations;
                if let Some(sig) = sig {
                    if (400..=2500).contains(&it) {
                        return Some((sk, m, rnd, it, crate::util::sha256_hex(&sig)));
                    }
                }
            }
            None
        });
        match found.into_iter().flatten().max_by_key(|f| f.3) {
            Some((sk, m, rnd, it, dg)) => {
                acc.evals(1);
                acc.distinct_enumerated += 1;
                acc.count(&format!("iterations_{set}"), it);
                src.push_str(&format!("    (\"{set}\", \"{}\", \"{}\", \"{}\", {it}, \"{dg}\"),\n", hex(&sk), hex(&m), hex(&rnd)));
            }
            None => acc.inconclusive(format!("no rejection-heavy signing input found for ML-DSA-{set}")),
        }
    }
    src.push_str("];\n");
    let out = ctx.fixtures.join("..").join("kat").join("src").join("fixtures.rs");
    if acc.inconclusive.is_empty() {
        let _ = std::fs::write(&out, src);
        eprintln!("katfix: wrote {}", out.display());
    }
    StageOut::new("katfix", "rejection-heavy signing inputs for the C17 known-answer program", false, acc)
}
