//! Property stages. Each returns what it observed; bin/check decides.

use crate::util::Acc;
use crate::Ctx;

pub mod common;
pub mod c01;
pub mod c02;
pub mod c03;
pub mod c04;
pub mod c05;
pub mod c06;
pub mod c07;
pub mod c08;
pub mod c09;
pub mod c10;
pub mod c11;
pub mod c12;
pub mod c13;
pub mod c15;
pub mod c16;
pub mod bnd;
pub mod c18;
pub mod hist;
pub mod replay;
pub mod sib;

pub struct StageOut {
    pub property: String,
    pub rule: String,
    pub exhaustive: bool,
    pub acc: Acc,
}

impl StageOut {
    pub fn new(property: &str, rule: &str, exhaustive: bool, acc: Acc) -> StageOut {
        StageOut { property: property.to_string(), rule: rule.to_string(), exhaustive, acc }
    }
}

pub fn dispatch(ctx: &Ctx) -> StageOut {
    match ctx.stage.as_str() {
        "oracle" => common::oracle_stage(ctx),
        "c01" => c01::run(ctx),
        "c02" => c02::run(ctx),
        "c03" => c03::run(ctx),
        "c04" => c04::run(ctx),
        "c05" => c05::run(ctx),
        "c06" => c06::run(ctx),
        "c07" => c07::run(ctx),
        "c08" => c08::run(ctx),
        "c09" => c09::run(ctx),
        "c10" => c10::run(ctx),
        "c11" => c11::run(ctx),
        "c12" => c12::run(ctx),
        "c13" => c13::run(ctx),
        "c13f4" => c13::run_f4(ctx),
        "c15" => c15::run(ctx),
        "c16" => c16::run(ctx),
        "c18" => c18::run(ctx),
        "hist" => hist::run(ctx),
        "bndsearch" => bnd::run(ctx),
        "katfix" => bnd::run_katfix(ctx),
        "advgen" => c18::run_advgen(ctx),
        "sibsearch" => sib::run(ctx),
        "rareseeds" => common::rareseeds_stage(ctx),
        "bench" => common::bench_stage(ctx),
        "replay" => replay::run(ctx),
        "c12os" => c12::run_os_calls(ctx),
        other => {
            eprintln!("unknown stage {other}");
            std::process::exit(2);
        }
    }
}
