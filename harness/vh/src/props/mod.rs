//! Property stages. Each returns what it observed; bin/check decides.

use crate::util::Acc;
use crate::Ctx;

pub mod common;
pub mod c01;
pub mod c02;
pub mod c03;
pub mod c04;

pub struct StageOut {
    pub property: String,
    pub rule: String,
    pub exhaustive: bool,
    pub acc: Acc,
}

impl StageOut {
    pub fn new(property: &str, rule: &str, exhaustive: bool, acc: Acc) -> StageOut {
        StageOut { property: property.to_string(), rule: rule.to_string(), exhaustive, acc }
    }
}

pub fn dispatch(ctx: &Ctx) -> StageOut {
    match ctx.stage.as_str() {
        "oracle" => common::oracle_stage(ctx),
        "c01" => c01::run(ctx),
        "c02" => c02::run(ctx),
        "c03" => c03::run(ctx),
        "c04" => c04::run(ctx),
        other => {
            eprintln!("unknown stage {other}");
            std::process::exit(2);
        }
    }
}
