//! C16 — key material is erased when keys are dropped: every byte of the object's storage is read
//! back (volatile) after drop_in_place.

use crate::for_sets;
use crate::guard::guarded;
use crate::props::StageOut;
use crate::rngs::RecordingRng;
use crate::sets::PS;
use crate::util::{digest64, hex, Acc, Prng};
use crate::Ctx;
use serde_json::json;
use std::mem::{size_of, MaybeUninit};

const RULE: &str = "for each set x key type {PrivateKey, PublicKey} x provenance {keygen_from_seed, try_keygen_with_rng, try_from_bytes, get_public_key, clone; plus keys imported from degenerate encodings: public keys that are all-zero / all-FF / with rho = 0 / rho = FF, private keys with rho = K = tr = 0 or FF or made of all-zero bytes, the public keys derived from those, and clones; plus keys in which one polynomial of s1 / s2 / t0 / t1 is a constructed in-range multiple of X^16 - r_k (k in {0,1,7,14,15}), so that its in-memory NTT form has one whole 64-byte line of zeros inside dense data, and their clones; keys in which one polynomial (or every polynomial) is f(X^(2^j)) for j = 1..8, a monomial, or has constant coefficients, so that the NTT image consists of repeated blocks, and their clones} x placement {stack slot MaybeUninit<T>, heap Box<MaybeUninit<T>>}: the object is written into storage the harness owns, the fraction of non-zero bytes is measured (must be > 25%: the object really holds key material), ptr::drop_in_place runs the type's Drop, then every one of size_of::<T>() bytes is read with read_volatile and must be 0. Non-trivial = distinct (set, type, provenance, placement, key) objects whose storage was non-zero before and fully inspected after the drop. Copies left behind by earlier moves are out of reach.";

pub fn run(ctx: &Ctx) -> StageOut {
    let mut acc = Acc::new();
    for a in for_sets!(ctx.sets, run_set(ctx)) {
        acc.merge(a);
    }
    StageOut::new("C16", RULE, false, acc)
}

struct Probe {
    size: usize,
    nonzero_before: usize,
    nonzero_after: usize,
    first_nonzero_after: Option<usize>,
}

/// Place the object, look, drop in place, look again.
fn probe<T, F: FnOnce() -> T>(make: F, heap: bool) -> Probe {
    let size = size_of::<T>();
    let count = |p: *const u8| -> (usize, Option<usize>) {
        let mut n = 0;
        let mut first = None;
        for i in 0..size {
            // SAFETY: p points to `size` bytes of storage owned by this function (a MaybeUninit<T>
            // slot), fully initialised by `write` before the first look and by the zeroizing Drop
            // (volatile writes of zeros) before the second one; T has no padding (checked by Miri).
            let b = unsafe { std::ptr::read_volatile(p.add(i)) };
            if b != 0 {
                n += 1;
                if first.is_none() {
                    first = Some(i);
                }
            }
        }
        (n, first)
    };
    if heap {
        let mut slot: Box<MaybeUninit<T>> = Box::new(MaybeUninit::uninit());
        let _ = slot.write(make());
        let p: *mut T = slot.as_mut_ptr();
        let (before, _) = count(p.cast());
        // SAFETY: the slot holds a valid T written just above; it is dropped exactly once here and
        // never used as a T again (MaybeUninit does not drop its contents).
        unsafe { std::ptr::drop_in_place(p) };
        let (after, first) = count(p.cast());
        Probe { size, nonzero_before: before, nonzero_after: after, first_nonzero_after: first }
    } else {
        let mut slot: MaybeUninit<T> = MaybeUninit::uninit();
        let _ = slot.write(make());
        let p: *mut T = slot.as_mut_ptr();
        let (before, _) = count(p.cast());
        // SAFETY: as above.
        unsafe { std::ptr::drop_in_place(p) };
        let (after, first) = count(p.cast());
        Probe { size, nonzero_before: before, nonzero_after: after, first_nonzero_after: first }
    }
}

fn judge(acc: &mut Acc, set: &str, ty: &str, prov: &str, heap: bool, key_id: &[u8], pr: Result<Probe, crate::guard::PanicInfo>) {
    judge_min(acc, set, ty, prov, heap, key_id, pr, 0)
}

/// `min_nonzero` > 0: accept the probe as meaningful when at least that many bytes were non-zero before
/// the drop (objects built from degenerate encodings are mostly zero but still hold e.g. tr)
#[allow(clippy::too_many_arguments)]
fn judge_min(acc: &mut Acc, set: &str, ty: &str, prov: &str, heap: bool, key_id: &[u8], pr: Result<Probe, crate::guard::PanicInfo>, min_nonzero: usize) {
    acc.eval();
    let place = if heap { "heap" } else { "stack" };
    let replay = json!({"kind":"c16","set":set,"type":ty,"provenance":prov,"placement":place,"key_seed":hex(key_id)});
    match pr {
        Err(pi) => acc.violation(&format!("C16|panic|{set}|{ty}|{prov}"), format!("panic while creating/dropping: {}", pi.message), replay),
        Ok(p) => {
            if (min_nonzero == 0 && p.nonzero_before * 4 < p.size) || (min_nonzero > 0 && p.nonzero_before < min_nonzero) {
                acc.inconclusive(format!("{set} {ty} {prov}: only {}/{} bytes non-zero before the drop: not a meaningful probe", p.nonzero_before, p.size));
                return;
            }
            if p.nonzero_after != 0 {
                acc.violation(
                    &format!("C16|not-erased|{set}|{ty}|{prov}"),
                    format!("{ty} ({prov}, {place}): {} of {} bytes still non-zero after drop (first at offset {})", p.nonzero_after, p.size, p.first_nonzero_after.unwrap_or(0)),
                    replay,
                );
            } else {
                acc.count(&format!("erased_{ty}_{prov}_{place}"), 1);
                acc.count("bytes_inspected_after_drop", p.size as u64);
                acc.nontrivial(digest64(&[set.as_bytes(), ty.as_bytes(), prov.as_bytes(), place.as_bytes(), key_id]));
                if acc.samples.len() < 3 {
                    acc.sample(json!({"set": set, "type": ty, "provenance": prov, "placement": place, "size_of": p.size, "nonzero_bytes_before_drop": p.nonzero_before, "nonzero_bytes_after_drop": p.nonzero_after}));
                }
            }
        }
    }
}

fn run_set<S: PS>(ctx: &Ctx) -> Acc {
    let p = S::p();
    let mut acc = Acc::new();
    let n_keys = ctx.budget(3, 24);
    for ki in 0..n_keys {
        let mut g = Prng::derive(ctx.seed, &format!("c16-{}", p.name), ki);
        let xi = g.arr32();
        let (pk0, sk0) = S::keygen_seed(&xi);
        let pk_b = S::pk_bytes(&pk0);
        let sk_b = S::sk_bytes(&sk0);
        for heap in [false, true] {
            // private keys
            judge(&mut acc, p.name, "PrivateKey", "keygen_from_seed", heap, &xi, guarded(|| probe(|| S::keygen_seed(&xi).1, heap)));
            judge(&mut acc, p.name, "PrivateKey", "try_keygen_with_rng", heap, &xi, guarded(|| probe(|| S::keygen_rng(&mut RecordingRng::new(&xi)).unwrap().1, heap)));
            judge(&mut acc, p.name, "PrivateKey", "try_from_bytes", heap, &xi, guarded(|| probe(|| S::sk_from(&sk_b).unwrap(), heap)));
            judge(&mut acc, p.name, "PrivateKey", "clone", heap, &xi, guarded(|| probe(|| sk0.clone(), heap)));
            // public keys
            judge(&mut acc, p.name, "PublicKey", "keygen_from_seed", heap, &xi, guarded(|| probe(|| S::keygen_seed(&xi).0, heap)));
            judge(&mut acc, p.name, "PublicKey", "try_keygen_with_rng", heap, &xi, guarded(|| probe(|| S::keygen_rng(&mut RecordingRng::new(&xi)).unwrap().0, heap)));
            judge(&mut acc, p.name, "PublicKey", "try_from_bytes", heap, &xi, guarded(|| probe(|| S::pk_from(&pk_b).unwrap(), heap)));
            judge(&mut acc, p.name, "PublicKey", "get_public_key", heap, &xi, guarded(|| probe(|| S::derive(&sk0), heap)));
            judge(&mut acc, p.name, "PublicKey", "clone", heap, &xi, guarded(|| probe(|| pk0.clone(), heap)));
            // keys imported from degenerate encodings (fields that are all-zero / all-ones)
            if ki == 0 {
                use refimpl as r;
                let zero_pk = vec![0u8; p.pk_len];
                let ff_pk = vec![0xFFu8; p.pk_len];
                let mut rho0_pk = pk_b.clone();
                rho0_pk[..32].fill(0);
                let mut rhoff_pk = pk_b.clone();
                rhoff_pk[..32].fill(0xFF);
                for (name, bytes) in [("try_from_bytes(all-zero)", &zero_pk), ("try_from_bytes(all-ff)", &ff_pk), ("try_from_bytes(rho=0)", &rho0_pk), ("try_from_bytes(rho=ff)", &rhoff_pk)] {
                    judge_min(&mut acc, p.name, "PublicKey", name, heap, &xi, guarded(|| probe(|| S::pk_from(bytes).unwrap(), heap)), 32);
                    judge_min(&mut acc, p.name, "PublicKey", &format!("clone of {name}"), heap, &xi, guarded(|| { let k = S::pk_from(bytes).unwrap(); probe(|| k.clone(), heap) }), 32);
                }
                // private keys with rho / K / tr zero or ones, and the public keys derived from them
                let parts = r::sk_decode(p, &sk_b);
                for (name, fill) in [("rho=K=tr=0", 0u8), ("rho=K=tr=ff", 0xFFu8)] {
                    let hs = r::sk_encode(p, &[fill; 32], &[fill; 32], &[fill; 64], &parts.s1, &parts.s2, &parts.t0);
                    judge_min(&mut acc, p.name, "PrivateKey", &format!("try_from_bytes({name})"), heap, &xi, guarded(|| probe(|| S::sk_from(&hs).unwrap(), heap)), 32);
                    judge_min(&mut acc, p.name, "PublicKey", &format!("get_public_key of sk({name})"), heap, &xi, guarded(|| { let k = S::sk_from(&hs).unwrap(); probe(|| S::derive(&k), heap) }), 32);
                }
                // all-zero s1/s2/t0 fields (coefficients at the range top) with zero rho/K/tr
                let zs = vec![[p.eta; 256]; p.l];
                let zs2 = vec![[p.eta; 256]; p.k];
                let zt = vec![[1i64 << 12; 256]; p.k];
                let hs = r::sk_encode(p, &[0u8; 32], &[0u8; 32], &[0u8; 64], &zs, &zs2, &zt);
                judge_min(&mut acc, p.name, "PrivateKey", "try_from_bytes(all-zero bytes)", heap, &xi, guarded(|| probe(|| S::sk_from(&hs).unwrap(), heap)), 32);
                judge_min(&mut acc, p.name, "PublicKey", "get_public_key of sk(all-zero bytes)", heap, &xi, guarded(|| { let k = S::sk_from(&hs).unwrap(); probe(|| S::derive(&k), heap) }), 32);
            }
            // keys whose in-memory (NTT-domain) polynomials contain an aligned run of 16 zero coefficients
            // (one whole 64-byte line) in the middle of dense data: one polynomial of s1 / s2 / t0 / t1 is
            // replaced by a multiple of X^16 - r_k, in range for its field, for several groups k
            if ki == 0 {
                use refimpl as r;
                let parts = r::sk_decode(p, &sk_b);
                let (rho_pk, t1) = r::pk_decode(p, &pk_b);
                let mut gz = Prng::derive(ctx.seed, &format!("c16-zero-run-{}", p.name), u64::from(heap));
                for (gi, k) in [0usize, 1, 7, 14, 15].into_iter().enumerate() {
                    for field in ["s1", "s2", "t0", "t1"] {
                        let name = format!("try_from_bytes({field} polynomial with NTT coefficients [{}..{}) = 0)", 16 * k, 16 * k + 16);
                        match field {
                            "t1" => {
                                let mut t = t1.clone();
                                let idx = if gi % 2 == 0 { 0 } else { p.k - 1 };
                                t[idx] = crate::gen::poly_zero_ntt_group(&mut gz, 0, 1023, k, 16);
                                let bytes = r::pk_encode(&rho_pk, &t);
                                let confirmed = S::h_ntt_k(&crate::sets::v_to_i32(&t))[idx][16 * k..16 * k + 16].iter().all(|&c| c == 0);
                                acc.count("crafted_zero_runs_confirmed_by_ntt_hook", u64::from(confirmed));
                                judge(&mut acc, p.name, "PublicKey", &name, heap, &bytes[32..96], guarded(|| probe(|| S::pk_from(&bytes).unwrap(), heap)));
                                judge(&mut acc, p.name, "PublicKey", &format!("clone of {name}"), heap, &bytes[32..96], guarded(|| { let kx = S::pk_from(&bytes).unwrap(); probe(|| kx.clone(), heap) }));
                            }
                            _ => {
                                let (mut s1, mut s2, mut t0) = (parts.s1.clone(), parts.s2.clone(), parts.t0.clone());
                                let classes = if p.eta == 2 { 2 } else { 4 };
                                match field {
                                    "s1" => { let idx = if gi % 2 == 0 { 0 } else { p.l - 1 }; s1[idx] = crate::gen::poly_zero_ntt_group(&mut gz, -p.eta, p.eta, k, classes); }
                                    "s2" => { let idx = if gi % 2 == 0 { p.k - 1 } else { 0 }; s2[idx] = crate::gen::poly_zero_ntt_group(&mut gz, -p.eta, p.eta, k, classes); }
                                    _ => { let idx = if gi % 2 == 0 { 0 } else { p.k - 1 }; t0[idx] = crate::gen::poly_zero_ntt_group(&mut gz, -(1 << 12) + 1, 1 << 12, k, 16); }
                                }
                                let bytes = r::sk_encode(p, &parts.rho, &parts.key, &parts.tr, &s1, &s2, &t0);
                                judge(&mut acc, p.name, "PrivateKey", &name, heap, &bytes[128..192], guarded(|| probe(|| S::sk_from(&bytes).unwrap(), heap)));
                                judge(&mut acc, p.name, "PrivateKey", &format!("clone of {name}"), heap, &bytes[128..192], guarded(|| { let kx = S::sk_from(&bytes).unwrap(); probe(|| kx.clone(), heap) }));
                            }
                        }
                    }
                }
            }
            // keys holding one polynomial with arithmetic structure (f(X^(2^j)), monomials, constant coefficients):
            // the in-memory NTT image then consists of repeated blocks, something no honest key shows
            if ki == 0 {
                use refimpl as r;
                let parts = r::sk_decode(p, &sk_b);
                let (rho_pk, t1) = r::pk_decode(p, &pk_b);
                let mut gz = Prng::derive(ctx.seed, &format!("c16-structured-{}", p.name), u64::from(heap));
                let top = 1i64 << 12;
                for (field, lo, hi) in [("s1", -p.eta, p.eta), ("s2", -p.eta, p.eta), ("t0", -top + 1, top), ("t1", 0, 1023)] {
                    for (pname, poly) in crate::gen::structured_polys(&mut gz, lo, hi) {
                        let name = format!("try_from_bytes({field} polynomial: {pname})");
                        if field == "t1" {
                            let mut t = t1.clone();
                            t[p.k - 1] = poly;
                            let bytes = r::pk_encode(&rho_pk, &t);
                            judge_min(&mut acc, p.name, "PublicKey", &name, heap, &bytes[32..96], guarded(|| probe(|| S::pk_from(&bytes).unwrap(), heap)), 64);
                            judge_min(&mut acc, p.name, "PublicKey", &format!("clone of {name}"), heap, &bytes[32..96], guarded(|| { let kx = S::pk_from(&bytes).unwrap(); probe(|| kx.clone(), heap) }), 64);
                        } else {
                            let (mut s1, mut s2, mut t0) = (parts.s1.clone(), parts.s2.clone(), parts.t0.clone());
                            match field {
                                "s1" => s1[0] = poly,
                                "s2" => s2[p.k - 1] = poly,
                                _ => t0[0] = poly,
                            }
                            let bytes = r::sk_encode(p, &parts.rho, &parts.key, &parts.tr, &s1, &s2, &t0);
                            judge_min(&mut acc, p.name, "PrivateKey", &name, heap, &bytes[128..192], guarded(|| probe(|| S::sk_from(&bytes).unwrap(), heap)), 64);
                            judge_min(&mut acc, p.name, "PrivateKey", &format!("clone of {name}"), heap, &bytes[128..192], guarded(|| { let kx = S::sk_from(&bytes).unwrap(); probe(|| kx.clone(), heap) }), 64);
                        }
                    }
                }
                // a key made ONLY of structured polynomials (every polynomial of every vector)
                let sp = crate::gen::structured_polys(&mut gz, -p.eta, p.eta);
                let tp = crate::gen::structured_polys(&mut gz, -top + 1, top);
                let s1: Vec<r::Poly> = (0..p.l).map(|i| sp[(3 + i) % sp.len()].1).collect();
                let s2: Vec<r::Poly> = (0..p.k).map(|i| sp[(4 + 2 * i) % sp.len()].1).collect();
                let t0: Vec<r::Poly> = (0..p.k).map(|i| tp[(3 + i) % tp.len()].1).collect();
                let bytes = r::sk_encode(p, &parts.rho, &parts.key, &parts.tr, &s1, &s2, &t0);
                judge_min(&mut acc, p.name, "PrivateKey", "try_from_bytes(every polynomial structured)", heap, &bytes[128..192], guarded(|| probe(|| S::sk_from(&bytes).unwrap(), heap)), 64);
                let t1s = crate::gen::structured_polys(&mut gz, 0, 1023);
                let t: Vec<r::Poly> = (0..p.k).map(|i| t1s[(3 + i) % t1s.len()].1).collect();
                let bytes = r::pk_encode(&rho_pk, &t);
                judge_min(&mut acc, p.name, "PublicKey", "try_from_bytes(every t1 polynomial structured)", heap, &bytes[32..96], guarded(|| probe(|| S::pk_from(&bytes).unwrap(), heap)), 64);
            }
            // the pair as returned by key generation, dropped as a tuple
            judge(&mut acc, p.name, "(PublicKey,PrivateKey)", "keygen_from_seed", heap, &xi, guarded(|| probe(|| S::keygen_seed(&xi), heap)));
        }
    }
    acc.count(&format!("size_of_PrivateKey_{}", p.name), size_of::<S::Sk>() as u64);
    acc.count(&format!("size_of_PublicKey_{}", p.name), size_of::<S::Pk>() as u64);
    acc
}
