//! C02 — verification accepts exactly what FIPS 204 Verify accepts (differential against the
//! spec-literal reference on identical bytes; the accept/reject boundary is constructed).

use crate::for_sets;
use crate::gen::{self, HintMal, HINT_MALS};
use crate::guard::guarded;
use crate::props::common::*;
use crate::props::StageOut;
use crate::sets::PS;
use crate::util::{digest64, hex, hex_short, par_map, Acc, Prng};
use crate::Ctx;
use refimpl as r;
use refimpl::{Mode, Poly, MODES};
use serde_json::json;

const RULE: &str = "each case (pk bytes, message, ctx, mode, signature bytes) is given to the crate's verify/hash_verify and to the reference ML-DSA.Verify/HashML-DSA.Verify; booleans must be equal. Classes: (a) honest signatures, (b) byte/bit mutations, (c) degenerate-key (t1=0) forgeries with the largest |z| coefficient placed at gamma1-beta-1 / gamma1-beta / gamma1 / -gamma1+1 and hint weight 0/1/omega-1/omega, plus forgeries whose w' = A z is steered so that one coefficient decomposes with r0 = 0 / +-1 / +-gamma2 or sits on the r+ - r0 = q-1 corner, with and without a hint on it, (d) six classes of hint-section malformation, each also with c~ computed for the lenient reading so a lenient decoder would answer true, (e) c~ bit flips on honest signatures and on every byte of c~ of degenerate-key forgeries (where the challenge does not influence w'), (f) ctx lengths around 255/256/512/65536, (g) 4x4 mode cross-verification, (h) sparse-coset adversarial signatures (fixtures), (i) ACVP sigVer vectors via _internal_verify, (j) random pk/sig. Non-trivial = distinct cases of classes (c),(d),(h) plus accepted cases of (a); both verdicts must be observed in (c).";

pub fn run(ctx: &Ctx) -> StageOut {
    let mut acc = Acc::new();
    if !oracle_gate(ctx, &mut acc) {
        return StageOut::new("C02", RULE, false, acc);
    }
    for a in for_sets!(ctx.sets, run_set(ctx)) {
        acc.merge(a);
    }
    acvp_sigver(ctx, &mut acc);
    for cls in ["c", "d"] {
        if acc.get(&format!("class_{cls}_accept")) == 0 || acc.get(&format!("class_{cls}_reject")) == 0 {
            if cls == "c" {
                acc.inconclusive(format!("class ({cls}) did not observe both verdicts"));
            }
        }
    }
    StageOut::new("C02", RULE, false, acc)
}

/// One differential evaluation.
pub fn check_case<S: PS>(
    acc: &mut Acc, class: &str, pk: &[u8], m: &[u8], cx: &[u8], mode: Mode, sig: &[u8], nontrivial: bool,
) -> Option<bool> {
    let p = S::p();
    acc.eval();
    let want = r::verify(p, pk, m, sig, cx, mode);
    let replay = || {
        let mut v = case_json(S::SET, mode, pk, None, m, cx, None, Some(sig));
        v["kind"] = json!("verify-diff");
        v["class"] = json!(class);
        v["reference"] = json!(want);
        v
    };
    let got = guarded(|| {
        let pko = S::pk_from(pk).expect("every pk byte string deserialises");
        S::verify(&pko, m, sig, cx, mode)
    });
    let key = class.chars().next().unwrap_or('x');
    match got {
        Err(pi) => {
            panic_violation(acc, "C02", "verify", class, &pi, replay());
            None
        }
        Ok(g) => {
            acc.count(&format!("class_{key}_{}", if want { "accept" } else { "reject" }), 1);
            if g != want {
                acc.violation(
                    &format!("C02|mismatch|{}|crate={g}|ref={want}|{class}", p.name),
                    format!("verify returned {g}, FIPS 204 reference returns {want} (class {class}, {})", mode.name()),
                    replay(),
                );
            } else if nontrivial {
                acc.nontrivial(digest64(&[&[S::SET as u8], class.as_bytes(), pk, m, cx, mode.name().as_bytes(), sig]));
            }
            Some(g)
        }
    }
}

/// What a decoder that skips the ordering / padding / count checks would read.
pub fn lenient_hint_decode(p: &r::Params, y: &[u8]) -> Vec<Poly> {
    let mut h = vec![r::ZERO; p.k];
    let mut index = 0usize;
    for i in 0..p.k {
        let lim = usize::from(y[p.omega + i]).min(p.omega);
        while index < lim {
            h[i][usize::from(y[index])] = 1;
            index += 1;
        }
    }
    h
}

fn run_set<S: PS>(ctx: &Ctx) -> Acc {
    let p = S::p();
    let n_jobs = ctx.budget(16, 1536) as usize;
    let accs = par_map(n_jobs, |ji| {
        let mut acc = Acc::new();
        let mut g = Prng::derive(ctx.seed, &format!("c02-{}", p.name), ji as u64);
        let xi = g.arr32();
        let (pk_b, sk_b) = r::keygen_internal(p, &xi);
        let sk = match guarded(|| S::sk_from(&sk_b)) {
            Ok(Ok(s)) => s,
            _ => {
                acc.inconclusive("could not load reference-generated sk".into());
                return acc;
            }
        };

        // ---------- (a) honest, (b) mutations, (e) c~ flips, (g) cross-mode ------------------
        for mode in MODES {
            let cl = *g.pick(&gen::CTX_LENGTHS);
            let ml = *g.pick(&gen::message_lengths(cl, false));
            let m = gen::message(&mut g, ml);
            let cx = gen::context(&mut g, cl);
            let rnd = gen::rnd_class(&mut g);
            let Ok((Ok(sig), _)) = sign_replay::<S>(&sk, &m, &cx, mode, &rnd) else {
                acc.inconclusive("honest sign failed (see C01)".into());
                continue;
            };
            let _ = check_case::<S>(&mut acc, "a-honest", &pk_b, &m, &cx, mode, &sig, true);
            // (g) every other mode
            for other in MODES {
                if other != mode {
                    let _ = check_case::<S>(&mut acc, "g-crossmode", &pk_b, &m, &cx, other, &sig, false);
                }
            }
            // (b) mutations
            for _ in 0..6 {
                let mut s2 = sig.clone();
                match g.below(4) {
                    0 => {
                        let i = g.below(s2.len() as u64) as usize;
                        s2[i] = g.below(256) as u8;
                    }
                    1 => gen::flip_bit(&mut s2, g.below(8 * sig.len() as u64) as usize),
                    2 => {
                        // swap two z polynomials' encodings
                        let step = 32 * (1 + r::bitlen(p.gamma1 - 1));
                        let a = g.below(p.l as u64) as usize;
                        let b = g.below(p.l as u64) as usize;
                        let off = p.lambda / 4;
                        for t in 0..step {
                            s2.swap(off + a * step + t, off + b * step + t);
                        }
                    }
                    _ => {
                        // hint-section byte
                        let off = p.sig_len - (p.omega + p.k);
                        let i = off + g.below((p.omega + p.k) as u64) as usize;
                        s2[i] = s2[i].wrapping_add(1 + g.below(3) as u8);
                    }
                }
                let _ = check_case::<S>(&mut acc, "b-mutation", &pk_b, &m, &cx, mode, &s2, false);
            }
            // (e) c~ bit flips
            for _ in 0..3 {
                let mut s2 = sig.clone();
                gen::flip_bit(&mut s2, g.below(8 * (p.lambda / 4) as u64) as usize);
                let _ = check_case::<S>(&mut acc, "e-ctilde-flip", &pk_b, &m, &cx, mode, &s2, false);
            }
            // message / ctx / pk changes
            if !m.is_empty() {
                let mut m2 = m.clone();
                gen::flip_bit(&mut m2, g.below(8 * m.len() as u64) as usize);
                let _ = check_case::<S>(&mut acc, "b-mutation-msg", &pk_b, &m2, &cx, mode, &sig, false);
            }
            let mut pk2 = pk_b.clone();
            let bit = g.below(8 * pk2.len() as u64) as usize;
            gen::flip_bit(&mut pk2, bit);
            let _ = check_case::<S>(&mut acc, "b-mutation-pk", &pk2, &m, &cx, mode, &sig, false);
            // (d) malformations of an honest signature's hint section
            let off = p.sig_len - (p.omega + p.k);
            for mal in HINT_MALS {
                if let Some(y2) = gen::malform_hint(&mut g, p, &sig[off..], mal) {
                    let mut s2 = sig.clone();
                    s2[off..].copy_from_slice(&y2);
                    let _ = check_case::<S>(&mut acc, &format!("d-hint-{mal:?}-honest"), &pk_b, &m, &cx, mode, &s2, true);
                }
            }
            if mode == Mode::Pure {
                for (ai, y2) in gen::ascending_hint_sections(&mut g, p).into_iter().enumerate() {
                    let mut s2 = sig.clone();
                    s2[off..].copy_from_slice(&y2);
                    let _ = check_case::<S>(&mut acc, &format!("d-hint-ascending-{ai}-honest"), &pk_b, &m, &cx, mode, &s2, true);
                }
            }
            // (f) context lengths: the same signature with longer contexts
            if ji % 4 == 0 {
                for n in [255usize, 256, 257, 511, 512, 65_536] {
                    let mut c2 = cx.clone();
                    c2.resize(n, 0x33);
                    let _ = check_case::<S>(&mut acc, "f-ctxlen", &pk_b, &m, &c2, mode, &sig, false);
                }
            }
        }

        // ---------- (c) degenerate-key boundary forgeries ------------------------------------
        let rho = g.bytes(32);
        let dpk = gen::degenerate_pk(p, &rho);
        let bound = p.gamma1 - p.beta;
        let spikes: [i64; 8] = [bound - 1, bound, p.gamma1, -(bound - 1), -bound, -p.gamma1 + 1, bound - 2, bound + 1];
        let weights = [0usize, 1, p.omega - 1, p.omega];
        for (si, &spike) in spikes.iter().enumerate() {
            let mode = MODES[(ji + si) % 4];
            let cl = *g.pick(&[0usize, 1, 255]);
            let ml = *g.pick(&[0usize, 1, 33, 200]);
            let m = gen::message(&mut g, ml);
            let cx = gen::context(&mut g, cl);
            let mp = r::format_message(mode, &m, &cx).unwrap();
            let rp = g.below(p.l as u64) as usize;
            let poly = *g.pick(&[0, p.l - 1, rp]);
            let rc = g.below(256) as usize;
            let coeff = *g.pick(&[0usize, 255, rc]);
            let small = *g.pick(&[0i64, 1, 1000, bound - 2]);
            let z = gen::z_with_spike(&mut g, p, poly, coeff, spike, small);
            let w = *g.pick(&weights);
            let layout = g.below(3);
            let h = gen::hint_with_weight(&mut g, p, w, layout);
            let sig = gen::forge_degenerate(p, &rho, &mp, &z, &h, None);
            let got = check_case::<S>(&mut acc, &format!("c-boundary-spike{si}"), &dpk, &m, &cx, mode, &sig, true);
            if si == 0 && acc.samples.len() < 4 {
                acc.sample(json!({"class": "c-boundary", "set": p.name, "mode": mode.name(), "pk": "rho || t1=0",
                    "rho": hex(&rho), "spike_value": spike, "bound_gamma1_minus_beta": bound, "hint_weight": w,
                    "message": hex_short(&m), "ctx": hex_short(&cx), "sig": hex_short(&sig), "crate_verify": got}));
            }
            // every byte of c~ of an accepted degenerate-key forgery: with t1 = 0 the challenge does not
            // influence w', so only the final comparison of c~ protects these bytes
            if si == 0 || si == 3 {
                for pos in 0..p.lambda / 4 {
                    let mut s2 = sig.clone();
                    s2[pos] ^= 1 << (pos % 8);
                    let _ = check_case::<S>(&mut acc, "e-ctilde-flip-degenerate", &dpk, &m, &cx, mode, &s2, true);
                }
            }
            // all-maximal accepted vector: every coefficient at +-(bound-1)
            if si == 0 {
                let z2: Vec<Poly> = (0..p.l).map(|_| core::array::from_fn(|_| if g.below(2) == 0 { bound - 1 } else { -(bound - 1) })).collect();
                let sig = gen::forge_degenerate(p, &rho, &mp, &z2, &h, None);
                let _ = check_case::<S>(&mut acc, "c-boundary-allmax", &dpk, &m, &cx, mode, &sig, true);
            }
        }

        // ---------- (c') UseHint / Decompose corners: steer one coefficient of w' = A z exactly onto
        // r0 = 0, +-1, the ends of the r0 range and the r+ - r0 = q-1 corner, with and without a hint there
        {
            let m_hi = (r::Q - 1) / (2 * p.gamma2);
            let tq = g.range(0, m_hi - 1) * 2 * p.gamma2;
            let targets: [(&str, i64); 10] = [
                ("r0=0", tq), ("r0=1", tq + 1), ("r0=-1", tq - 1), ("r0=gamma2", tq + p.gamma2), ("r0=-gamma2+1", tq - p.gamma2 + 1),
                ("r=0", 0), ("r=q-1", r::Q - 1), ("r=q-gamma2", r::Q - p.gamma2), ("r=q-gamma2-1", r::Q - p.gamma2 - 1), ("r=2gamma2*(m-1)+gamma2", (m_hi - 1) * 2 * p.gamma2 + p.gamma2),
            ];
            let (tname, target) = targets[ji % targets.len()];
            let a_hat = r::expand_a(p, &rho);
            let k = g.below(p.k as u64) as usize;
            let n = g.below(256) as usize;
            let a_row: Vec<Poly> = a_hat[k].iter().map(r::ntt_inv).collect();
            let mut z: Vec<Poly> = (0..p.l).map(|_| core::array::from_fn(|_| g.range(-(bound - 1) / 2, (bound - 1) / 2))).collect();
            let t1z = vec![r::ZERO; p.k];
            let w = r::w_approx(p, &rho, &t1z, &r::ZERO, &z);
            let delta = (target - w[k][n]).rem_euclid(r::Q);
            let mut steered = false;
            'search: for j in 0..p.l {
                for mpos in 0..256usize {
                    // coefficient of X^n in X^mpos * a_kj (negacyclic)
                    let c = if n >= mpos { a_row[j][n - mpos] } else { (r::Q - a_row[j][n + 256 - mpos]) % r::Q };
                    if c == 0 {
                        continue;
                    }
                    let e = r::mod_pm(delta * r::modpow(c, (r::Q - 2) as u64, r::Q) % r::Q, r::Q);
                    let nz = z[j][mpos] + e;
                    if nz.abs() <= bound - 1 {
                        z[j][mpos] = nz;
                        steered = true;
                        break 'search;
                    }
                }
            }
            if steered {
                let w2 = r::w_approx(p, &rho, &t1z, &r::ZERO, &z);
                if w2[k][n] == target.rem_euclid(r::Q) {
                    for hbit in [1i64, 0] {
                        let mode = MODES[(ji + hbit as usize) % 4];
                        let m = gen::message(&mut g, 19);
                        let mp = r::format_message(mode, &m, &[]).unwrap();
                        let mut h = gen::hint_with_weight(&mut g, p, 5, 0);
                        h[k][n] = hbit;
                        let sig = gen::forge_degenerate(p, &rho, &mp, &z, &h, None);
                        let _ = check_case::<S>(&mut acc, &format!("c-usehint-corner-{tname}-h{hbit}"), &dpk, &m, &[], mode, &sig, true);
                        acc.count("usehint_corner_cases", 1);
                    }
                } else {
                    acc.count("usehint_corner_steering_failed", 1);
                }
            }
        }

        // ---------- (c'') sparse hints at special positions, and the all-zero response ----------
        // lone hints at the first / last position of the flattened hint vector, pairs of them, and z = 0
        // (then w' = 0 in every coefficient: the one residue where UseHint(1, r) wraps from 0 to m-1)
        {
            let places: [&[(usize, usize)]; 7] = [&[(0, 0)], &[(0, 1)], &[(p.k - 1, 255)], &[(0, 0), (p.k - 1, 255)], &[(p.k - 1, 0)], &[(0, 255)], &[]];
            for (zi, zero_z) in [false, true].into_iter().enumerate() {
                for (pi_, place) in places.iter().enumerate() {
                    if (ji + zi + pi_) % 2 == 1 && !ctx.thorough() {
                        continue;
                    }
                    let mode = MODES[(ji + pi_) % 4];
                    let m = gen::message(&mut g, 21);
                    let mp = r::format_message(mode, &m, &[]).unwrap();
                    let z: Vec<Poly> = if zero_z { vec![r::ZERO; p.l] } else { (0..p.l).map(|_| core::array::from_fn(|_| g.range(-1000, 1000))).collect() };
                    let mut h = vec![r::ZERO; p.k];
                    for &(a, b) in place.iter() {
                        h[a][b] = 1;
                    }
                    let sig = gen::forge_degenerate(p, &rho, &mp, &z, &h, None);
                    let _ = check_case::<S>(&mut acc, &format!("c-sparse-hint-{}{}", if zero_z { "zero-z-" } else { "" }, pi_), &dpk, &m, &[], mode, &sig, true);
                }
                // weight omega, all in one polynomial, with z = 0 / small z
                let m = gen::message(&mut g, 21);
                let mp = r::format_message(Mode::Pure, &m, &[]).unwrap();
                let z: Vec<Poly> = if zero_z { vec![r::ZERO; p.l] } else { (0..p.l).map(|_| core::array::from_fn(|_| g.range(-3, 3))).collect() };
                let h = gen::hint_with_weight(&mut g, p, p.omega, 1);
                let sig = gen::forge_degenerate(p, &rho, &mp, &z, &h, None);
                let _ = check_case::<S>(&mut acc, if zero_z { "c-full-hint-zero-z" } else { "c-full-hint-tiny-z" }, &dpk, &m, &[], Mode::Pure, &sig, true);
            }
        }

        // ---------- (d) malformations with lenient-equivalent c~ -------------------------------
        for mal in HINT_MALS {
            let mode = *g.pick(&MODES);
            let m = gen::message(&mut g, 40);
            let cl = *g.pick(&[0usize, 7]);
            let cx = gen::context(&mut g, cl);
            let mp = r::format_message(mode, &m, &cx).unwrap();
            let z: Vec<Poly> = (0..p.l).map(|_| core::array::from_fn(|_| g.range(-1000, 1000))).collect();
            // weights: usually somewhere in the middle; every third job the completely full vector (no padding
            // left) and, where the malformation allows it, nearly empty ones
            let w = match mal {
                HintMal::Padding => if ji % 3 == 1 { 0 } else { g.below(p.omega as u64) as usize },
                _ => if ji % 3 == 0 { p.omega } else if ji % 3 == 1 { 2 } else { 2 + g.below((p.omega - 2) as u64) as usize },
            };
            let h = gen::hint_with_weight(&mut g, p, w, if mal == HintMal::Duplicate || mal == HintMal::Swap { 2 } else { 0 });
            let y = r::hint_bit_pack(&h, p.omega);
            let Some(y2) = gen::malform_hint(&mut g, p, &y, mal) else { continue };
            let h_len = lenient_hint_decode(p, &y2);
            let sig = gen::forge_degenerate(p, &rho, &mp, &z, &h_len, Some(&y2));
            let got = check_case::<S>(&mut acc, &format!("d-hint-{mal:?}-lenient"), &dpk, &m, &cx, mode, &sig, true);
            if acc.samples.len() < 6 && mal == HintMal::Duplicate {
                acc.sample(json!({"class": format!("d-hint-{mal:?}-lenient"), "set": p.name, "hint_section": hex(&y2),
                    "note": "c~ computed for the lenient reading: a decoder that skipped this check would accept", "crate_verify": got}));
            }
        }

        // ---------- (j) random pk / sig ------------------------------------------------------
        for _ in 0..3 {
            let pk = g.bytes(p.pk_len);
            let sig = g.bytes(p.sig_len);
            let m = g.bytes(8);
            let _ = check_case::<S>(&mut acc, "j-random", &pk, &m, &[], *g.pick(&MODES), &sig, false);
            // random z with an empty, well-formed hint section (reaches the arithmetic)
            let mut sig2 = g.bytes(p.sig_len);
            let off = p.sig_len - (p.omega + p.k);
            for b in sig2[off..].iter_mut() {
                *b = 0;
            }
            let _ = check_case::<S>(&mut acc, "j-random-wellformed-hint", &pk, &m, &[], Mode::Pure, &sig2, false);
        }
        acc
    });
    let mut acc = Acc::merge_all(accs);
    adversarial_fixtures::<S>(ctx, &mut acc);
    // (h') c~ values with extreme SampleInBall consumption, as a forged-valid degenerate-key signature cannot
    // choose c~, these are plain differential cases (both sides must say false) plus an honest key
    for (ct, nbytes) in sib_fixtures(ctx, S::SET) {
        let mut g = Prng::derive(ctx.seed, "c02-sib", nbytes);
        let z: Vec<Poly> = (0..p.l).map(|_| core::array::from_fn(|_| g.range(-100, 100))).collect();
        let sig = r::sig_encode(p, &ct, &z, &vec![r::ZERO; p.k]);
        let (hpk, _) = r::keygen_internal(p, &[9u8; 32]);
        let _ = check_case::<S>(&mut acc, "h-sample-in-ball-extreme", &hpk, b"m", b"", Mode::Pure, &sig, true);
        let _ = check_case::<S>(&mut acc, "h-sample-in-ball-extreme", &gen::degenerate_pk(p, &[1u8; 32]), b"m", b"", Mode::Sha512, &sig, true);
    }
    acc
}

/// (h) sparse-coset adversarial signatures from fixtures/adversarial/*.json
pub fn adversarial_fixtures<S: PS>(ctx: &Ctx, acc: &mut Acc) {
    let dir = ctx.fixtures.join("adversarial");
    let Ok(rd) = std::fs::read_dir(&dir) else { return };
    let mut paths: Vec<_> = rd.flatten().map(|e| e.path()).filter(|p| p.extension().map_or(false, |e| e == "json")).collect();
    paths.sort();
    for path in paths {
        let Ok(text) = std::fs::read_to_string(&path) else { continue };
        let Ok(v) = serde_json::from_str::<serde_json::Value>(&text) else { continue };
        if v["set"].as_u64() != Some(u64::from(S::SET)) {
            continue;
        }
        let pk = crate::util::unhex(v["pk"].as_str().unwrap_or(""));
        let sig = crate::util::unhex(v["sig"].as_str().unwrap_or(""));
        let m = crate::util::unhex(v["message"].as_str().unwrap_or(""));
        let cx = crate::util::unhex(v["ctx"].as_str().unwrap_or(""));
        let mode = mode_from_name(v["mode"].as_str().unwrap_or("pure"));
        let _ = check_case::<S>(acc, "h-adversarial-fixture", &pk, &m, &cx, mode, &sig, true);
        acc.count("adversarial_fixtures", 1);
    }
}

/// (i) ACVP sigVer vectors through the crate's _internal_verify
fn acvp_sigver(ctx: &Ctx, acc: &mut Acc) {
    let Ok(vs) = crate::oracle::sigver_vectors(&ctx.fixtures.join("acvp")) else { return };
    for (i, t) in vs.iter().enumerate() {
        if !ctx.sets.contains(&t.set) {
            continue;
        }
        acc.eval();
        let got = guarded(|| match t.set {
            44 => <crate::sets::S44 as PS>::internal_verify(&<crate::sets::S44 as PS>::pk_from(&t.pk).unwrap(), &t.message, &t.signature, &[]),
            65 => <crate::sets::S65 as PS>::internal_verify(&<crate::sets::S65 as PS>::pk_from(&t.pk).unwrap(), &t.message, &t.signature, &[]),
            _ => <crate::sets::S87 as PS>::internal_verify(&<crate::sets::S87 as PS>::pk_from(&t.pk).unwrap(), &t.message, &t.signature, &[]),
        });
        acc.count(if t.passed { "class_i_accept" } else { "class_i_reject" }, 1);
        match got {
            Ok(g) if g == t.passed => {}
            Ok(g) => acc.violation(
                &format!("C02|acvp-sigver|{}|{}", t.set, t.reason),
                format!("ACVP sigVer vector {i} ({}): _internal_verify returned {g}, expected {}", t.reason, t.passed),
                json!({"kind": "acvp-sigver", "index": i}),
            ),
            Err(pi) => panic_violation(acc, "C02", "_internal_verify", "acvp", &pi, json!({"kind": "acvp-sigver", "index": i})),
        }
    }
}
