//! C08 — signature and polynomial encodings are canonical (codec hooks vs reference codecs).

use crate::for_sets;
use crate::gen::{self, HINT_MALS};
use crate::guard::guarded;
use crate::props::common::*;
use crate::props::StageOut;
use crate::sets::{to_i32, v_to_i32, v_to_i64, PS};
use crate::util::{digest64, hex, hex_short, par_map, Acc, Prng};
use crate::Ctx;
use fips204::verif_hooks as hk;
use refimpl as r;
use refimpl::{Mode, Poly};
use serde_json::json;

const RULE: &str = "(i) sig_decode hook on honest, mutated, boundary-forged and hint-malformed signatures: accept/reject and decoded (c~, z, h) must equal the reference sigDecode, and sig_encode of the decoded parts must return the input bytes; (ii) EXHAUSTIVE hint_bit_unpack::<K>(omega, y) over all byte strings y of length omega+K at reduced parameters (K,omega) in {(1,1),(1,2),(2,1)} (thorough adds (1,3),(2,2),(3,1): 2^32 strings each): accept/reject and h equal Algorithm 21, accepted => hint_bit_pack(h) == y, number of accepted strings == sum_{w<=omega} C(256K, w) (bijection); (iii) structure-aware malformed hint sections at real parameters (weights 0, omega-1, omega, random), six malformation classes plus random edits, each through the hint decoder AND embedded in a whole signature through sig_decode; (iv) bit_pack/bit_unpack/simple variants for every (a,b) the crate uses: every in-range value at slots 0/1/127/255 over all-min and all-max backgrounds, random vectors, random byte strings: unpack(pack(w)) == w, pack(unpack(v)) == v when accepted, acceptance whenever all fields are in range, agreement with the bit-literal reference; (v) pk/sk/w1 encoders against the reference. Non-trivial = distinct byte strings / vectors evaluated per codec (exhaustive sweeps counted by enumeration).";

pub fn run(ctx: &Ctx) -> StageOut {
    let mut acc = Acc::new();
    if !oracle_gate(ctx, &mut acc) {
        return StageOut::new("C08", RULE, false, acc);
    }
    for a in for_sets!(ctx.sets, run_set(ctx)) {
        acc.merge(a);
    }
    reduced_hint_exhaustive(ctx, &mut acc);
    bit_codecs(ctx, &mut acc);
    StageOut::new("C08", RULE, false, acc)
}

fn hp(v: &[crate::sets::P]) -> Vec<Poly> { v_to_i64(v) }

/// (i)+(iii): one signature byte string through the crate's decoder and the reference's.
pub fn check_sig_codec<S: PS>(acc: &mut Acc, class: &str, sig: &[u8]) {
    let p = S::p();
    acc.eval();
    let replay = || json!({"kind":"sig-codec","set":S::SET,"sig":hex(sig),"class":class});
    let (rc, rz, rh) = r::sig_decode(p, sig);
    let got = guarded(|| S::h_sig_decode(sig));
    match got {
        Err(pi) => panic_violation(acc, "C08", "sig_decode", class, &pi, replay()),
        Ok(Err(_)) | Ok(Ok((_, _, None))) => {
            if rh.is_some() {
                acc.violation(&format!("C08|sig-decode-rejects-valid|{}|{class}", p.name), "crate sigDecode rejects an encoding that Algorithm 27 accepts".into(), replay());
            } else {
                acc.count("sig_decode_reject_agree", 1);
                acc.nontrivial(digest64(&[&[S::SET as u8], b"sigrej", sig]));
            }
        }
        Ok(Ok((c, z, Some(h)))) => {
            let Some(rh) = rh else {
                acc.violation(&format!("C08|sig-decode-accepts-malformed|{}|{class}", p.name), "crate sigDecode accepts a hint section that Algorithm 21 rejects".into(), replay());
                return;
            };
            if c != rc || hp(&z) != rz || hp(&h) != rh {
                acc.violation(&format!("C08|sig-decode-values-differ|{}|{class}", p.name), "decoded (c~, z, h) differ from the reference sigDecode".into(), replay());
                return;
            }
            match guarded(|| S::h_sig_encode(&c, &z, &h, false)) {
                Err(pi) => panic_violation(acc, "C08", "sig_encode", class, &pi, replay()),
                Ok(enc) => {
                    if enc != sig {
                        let first = enc.iter().zip(sig.iter()).position(|(a, b)| a != b).unwrap_or(0);
                        acc.violation(&format!("C08|sig-reencode-differs|{}|{class}", p.name), format!("sig_encode(sig_decode(sigma)) != sigma (first differing byte {first}): two byte strings read as the same signature"), replay());
                    } else {
                        acc.count("sig_roundtrip_identity", 1);
                        acc.nontrivial(digest64(&[&[S::SET as u8], b"sigacc", sig]));
                    }
                }
            }
        }
    }
}

/// hint section alone at real parameters, and the same section inside a whole signature (the signature
/// decoder, not only the hint decoder, must reach the same verdict)
fn check_hint_codec<S: PS>(acc: &mut Acc, class: &str, y: &[u8]) {
    let p = S::p();
    {
        let off = p.sig_len - (p.omega + p.k);
        let mut sig = vec![0u8; p.sig_len];
        for (i, b) in sig[..off].iter_mut().enumerate() {
            *b = (i as u8).wrapping_mul(29) ^ y[i % y.len()];
        }
        sig[off..].copy_from_slice(y);
        check_sig_codec::<S>(acc, &format!("hint-in-signature-{class}"), &sig);
    }
    acc.eval();
    let replay = || json!({"kind":"hint-codec","set":S::SET,"y":hex(y),"class":class});
    let want = r::hint_bit_unpack(y, p.k, p.omega);
    match guarded(|| S::h_hint_unpack(y)) {
        Err(pi) => panic_violation(acc, "C08", "hint_bit_unpack", class, &pi, replay()),
        Ok(Err(_)) => {
            if want.is_some() {
                acc.violation(&format!("C08|hint-rejects-valid|{}|{class}", p.name), "hint_bit_unpack rejects a well-formed hint section".into(), replay());
            } else {
                acc.count(&format!("hint_reject_agree_{class}"), 1);
                acc.nontrivial(digest64(&[&[S::SET as u8], b"hrej", y]));
            }
        }
        Ok(Ok(h)) => match want {
            None => acc.violation(&format!("C08|hint-accepts-malformed|{}|{class}", p.name), "hint_bit_unpack accepts a malformed hint section".into(), replay()),
            Some(wh) => {
                if hp(&h) != wh {
                    acc.violation(&format!("C08|hint-values-differ|{}|{class}", p.name), "decoded hint differs from Algorithm 21".into(), replay());
                } else {
                    match guarded(|| S::h_hint_pack(&h, false)) {
                        Ok(y2) if y2 == y => {
                            acc.count("hint_roundtrip_identity", 1);
                            acc.nontrivial(digest64(&[&[S::SET as u8], b"hacc", y]));
                        }
                        Ok(_) => acc.violation(&format!("C08|hint-reencode-differs|{}|{class}", p.name), "hint_bit_pack(hint_bit_unpack(y)) != y".into(), replay()),
                        Err(pi) => panic_violation(acc, "C08", "hint_bit_pack", class, &pi, replay()),
                    }
                }
            }
        },
    }
}

fn run_set<S: PS>(ctx: &Ctx) -> Acc {
    let p = S::p();
    let n_jobs = ctx.budget(16, 128) as usize;
    let n_hint = ctx.budget(600, 8000) as usize;
    let accs = par_map(n_jobs, |ji| {
        let mut acc = Acc::new();
        let mut g = Prng::derive(ctx.seed, &format!("c08-{}", p.name), ji as u64);
        let xi = g.arr32();
        let (pk_b, sk_b) = r::keygen_internal(p, &xi);
        let off = p.sig_len - (p.omega + p.k);
        // honest signature and its mutations
        let mp = r::format_message(Mode::Pure, &g.bytes(12), &[]).unwrap();
        if let Some(sig) = r::sign_internal(p, &sk_b, &mp, &g.arr32()) {
            check_sig_codec::<S>(&mut acc, "honest", &sig);
            for _ in 0..8 {
                let mut s2 = sig.clone();
                let i = g.below(s2.len() as u64) as usize;
                s2[i] ^= 1 << g.below(8);
                check_sig_codec::<S>(&mut acc, "bitflip", &s2);
            }
            for mal in HINT_MALS {
                if let Some(y2) = gen::malform_hint(&mut g, p, &sig[off..], mal) {
                    let mut s2 = sig.clone();
                    s2[off..].copy_from_slice(&y2);
                    check_sig_codec::<S>(&mut acc, &format!("hint-{mal:?}"), &s2);
                }
            }
            if ji == 0 {
                acc.sample(json!({"set": p.name, "codec": "sig", "sig": hex_short(&sig), "hint_section": hex(&sig[off..]), "decode_accept": true, "reencode_identical": true}));
            }
        }
        // z at the encoding range ends: -gamma1+1 and gamma1 everywhere
        for v in [p.gamma1, -p.gamma1 + 1] {
            let z: Vec<Poly> = vec![[v; 256]; p.l];
            let h = gen::hint_with_weight(&mut g, p, p.omega, 0);
            let sig = r::sig_encode(p, &g.bytes(p.lambda / 4), &z, &h);
            check_sig_codec::<S>(&mut acc, "z-range-end", &sig);
        }
        // random bytes with a well-formed empty hint, and fully random
        let mut s = g.bytes(p.sig_len);
        check_sig_codec::<S>(&mut acc, "random", &s);
        for b in s[off..].iter_mut() {
            *b = 0;
        }
        check_sig_codec::<S>(&mut acc, "random-z-empty-hint", &s);

        // hint sections ascending through index and count area (counts above omega)
        for y in gen::ascending_hint_sections(&mut g, p) {
            check_hint_codec::<S>(&mut acc, "ascending-whole-section", &y);
        }
        // (iii) structure-aware hint sections
        for t in 0..n_hint / n_jobs.max(1) + 1 {
            let w = match t % 5 {
                0 => 0,
                1 => p.omega,
                2 => p.omega - 1,
                _ => g.below(p.omega as u64 + 1) as usize,
            };
            let layout = g.below(3);
            let h = gen::hint_with_weight(&mut g, p, w, layout);
            let y = r::hint_bit_pack(&h, p.omega);
            check_hint_codec::<S>(&mut acc, "valid", &y);
            for mal in HINT_MALS {
                if let Some(y2) = gen::malform_hint(&mut g, p, &y, mal) {
                    check_hint_codec::<S>(&mut acc, &format!("{mal:?}"), &y2);
                }
            }
            // random edits (may stay valid)
            let mut y3 = y.clone();
            for _ in 0..1 + g.below(3) {
                let i = g.below(y3.len() as u64) as usize;
                y3[i] = match g.below(3) {
                    0 => y3[i].wrapping_add(1),
                    1 => y3[i].wrapping_sub(1),
                    _ => g.below(256) as u8,
                };
            }
            check_hint_codec::<S>(&mut acc, "random-edit", &y3);
        }

        // (v) key and w1 encoders
        acc.eval();
        let rho = g.bytes(32);
        let t1: Vec<Poly> = (0..p.k).map(|_| core::array::from_fn(|_| { let x = g.range(0, 1023); *g.pick(&[0i64, 1023, x]) })).collect();
        let want = r::pk_encode(&rho, &t1);
        match guarded(|| (S::h_pk_encode(&rho, &v_to_i32(&t1)), S::h_pk_decode(&want))) {
            Ok((enc, Ok((drho, dt1)))) if enc == want && drho == rho && hp(&dt1) == t1 => {
                acc.count("pk_codec_agree", 1);
                acc.nontrivial(digest64(&[b"pkc", &want]));
            }
            Ok(_) => acc.violation(&format!("C08|pk-codec-differs|{}", p.name), "pk_encode/pk_decode disagree with Algorithms 22/23".into(), json!({"kind":"pk-codec","set":S::SET,"pk":hex(&want)})),
            Err(pi) => panic_violation(&mut acc, "C08", "pk_encode/pk_decode", "codec", &pi, json!({"kind":"pk-codec","set":S::SET,"pk":hex(&want)})),
        }
        acc.eval();
        let parts = r::sk_decode(p, &sk_b);
        let _ = pk_b;
        match guarded(|| (S::h_sk_decode(&sk_b), S::h_sk_encode(&parts.rho, &parts.key, &parts.tr, &v_to_i32(&parts.s1), &v_to_i32(&parts.s2), &v_to_i32(&parts.t0)))) {
            Ok((Ok((rho2, k2, tr2, s1, s2, t0)), enc)) if enc == sk_b && rho2 == parts.rho && k2 == parts.key && tr2 == parts.tr && hp(&s1) == parts.s1 && hp(&s2) == parts.s2 && hp(&t0) == parts.t0 => {
                acc.count("sk_codec_agree", 1);
                acc.nontrivial(digest64(&[b"skc", &sk_b]));
            }
            Ok(_) => acc.violation(&format!("C08|sk-codec-differs|{}", p.name), "sk_encode/sk_decode disagree with Algorithms 24/25".into(), json!({"kind":"sk-codec","set":S::SET,"sk":hex(&sk_b)})),
            Err(pi) => panic_violation(&mut acc, "C08", "sk_encode/sk_decode", "codec", &pi, json!({"kind":"sk-codec","set":S::SET,"sk":hex(&sk_b)})),
        }
        acc.eval();
        let m = (r::Q - 1) / (2 * p.gamma2) - 1;
        let w1: Vec<Poly> = (0..p.k).map(|_| core::array::from_fn(|_| { let x = g.range(0, m); *g.pick(&[0i64, m, x]) })).collect();
        let want = r::w1_encode(p, &w1);
        match guarded(|| S::h_w1_encode(&v_to_i32(&w1))) {
            Ok(enc) if enc == want => {
                acc.count("w1_codec_agree", 1);
                acc.nontrivial(digest64(&[b"w1", &want]));
            }
            Ok(_) => acc.violation(&format!("C08|w1-encode-differs|{}", p.name), "w1_encode disagrees with Algorithm 28".into(), json!({"kind":"w1-codec","set":S::SET})),
            Err(pi) => panic_violation(&mut acc, "C08", "w1_encode", "codec", &pi, json!({"kind":"w1-codec","set":S::SET})),
        }
        acc
    });
    Acc::merge_all(accs)
}

fn binom(n: u64, k: u64) -> u64 {
    let mut r: u128 = 1;
    for i in 0..k {
        r = r * (n - i) as u128 / (i + 1) as u128;
    }
    r as u64
}

/// (ii) all byte strings at reduced (K, omega)
fn reduced_hint_exhaustive(ctx: &Ctx, acc: &mut Acc) {
    fn sweep<const K: usize>(omega: usize, acc: &mut Acc) {
        let len = omega + K;
        let total: u64 = 1u64 << (8 * len);
        let chunks = 4096u64.min(total);
        let res = par_map(chunks as usize, |c| {
            let lo = c as u64 * total / chunks;
            let hi = (c as u64 + 1) * total / chunks;
            let mut accepted = 0u64;
            let mut fail: Option<(Vec<u8>, String)> = None;
            let r = guarded(|| {
                let mut y = vec![0u8; len];
                for v in lo..hi {
                    for (i, b) in y.iter_mut().enumerate() {
                        *b = (v >> (8 * i)) as u8;
                    }
                    // cheap pre-filter identical for both sides is NOT used: both decoders see every string
                    let want = r::hint_bit_unpack(&y, K, omega);
                    let got = hk::hint_bit_unpack::<K>(omega as i32, &y);
                    match (got, want) {
                        (Err(_), None) => {}
                        (Ok(h), Some(wh)) => {
                            accepted += 1;
                            let same = (0..K).all(|i| (0..256).all(|j| i64::from(h[i][j]) == wh[i][j]));
                            let mut y2 = vec![0xFFu8; len];
                            hk::hint_bit_pack::<false, K>(omega as i32, &h, &mut y2);
                            if (!same || y2 != y) && fail.is_none() {
                                fail = Some((y.clone(), format!("values_equal={same} reencode_identical={}", y2 == y)));
                            }
                        }
                        (Ok(_), None) => {
                            if fail.is_none() {
                                fail = Some((y.clone(), "crate accepts, Algorithm 21 rejects".into()));
                            }
                        }
                        (Err(_), Some(_)) => {
                            if fail.is_none() {
                                fail = Some((y.clone(), "crate rejects, Algorithm 21 accepts".into()));
                            }
                        }
                    }
                }
            });
            if let Err(pi) = r {
                fail = Some((vec![], format!("panic: {}", pi.message)));
            }
            (hi - lo, accepted, fail)
        });
        let mut n = 0u64;
        let mut accepted = 0u64;
        for (cnt, a, fail) in res {
            n += cnt;
            accepted += a;
            if let Some((y, why)) = fail {
                acc.violation(&format!("C08|reduced-hint|K={K}|omega={omega}|mismatch"), format!("hint codec at (K={K}, omega={omega}) on y={}: {why}", hex(&y)), json!({"kind":"reduced-hint","k":K,"omega":omega,"y":hex(&y)}));
            }
        }
        let valid: u64 = (0..=omega as u64).map(|w| binom(256 * K as u64, w)).sum();
        if accepted != valid {
            acc.violation(&format!("C08|reduced-hint|K={K}|omega={omega}|count"), format!("{accepted} byte strings accepted but there are {valid} hint vectors of weight <= omega: not a bijection"), json!({"kind":"reduced-hint-count","k":K,"omega":omega}));
        }
        acc.evals(n);
        acc.distinct_enumerated += n;
        acc.count(&format!("reduced_hint_K{K}_omega{omega}_strings"), n);
        acc.count(&format!("reduced_hint_K{K}_omega{omega}_accepted"), accepted);
        acc.count(&format!("reduced_hint_K{K}_omega{omega}_valid_vectors"), valid);
    }
    sweep::<1>(1, acc);
    sweep::<1>(2, acc);
    sweep::<2>(1, acc);
    if ctx.thorough() && !ctx.checked_build() {
        sweep::<1>(3, acc);
        sweep::<2>(2, acc);
        sweep::<3>(1, acc);
    }
    acc.sample(json!({"codec": "hint_bit_unpack at reduced parameters", "K": 1, "omega": 2, "byte_strings": 1u64 << 24, "example_accepted": "y = 05 09 02 -> h[0] has ones at 5 and 9", "example_rejected": "y = 09 05 02 (descending), y = 05 05 02 (repeat), y = 05 01 01 (non-zero padding)"}));
}

/// (iv) coefficient bit packing for every (a, b) the crate uses
fn bit_codecs(ctx: &Ctx, acc: &mut Acc) {
    // (a, b, simple?, unpack used by the crate on untrusted input?)
    let shapes: [(i64, i64, bool); 8] = [
        (2, 2, false),
        (4, 4, false),
        ((1 << 12) - 1, 1 << 12, false),
        ((1 << 17) - 1, 1 << 17, false),
        ((1 << 19) - 1, 1 << 19, false),
        (0, 1023, true),
        (0, 43, true),
        (0, 15, true),
    ];
    let n_rand = ctx.budget(300, 6000) as usize;
    for (a, b, simple) in shapes {
        let c = r::bitlen(a + b);
        let nbytes = 32 * c;
        let name = format!("({a},{b})");
        let fill_ctr = std::sync::atomic::AtomicUsize::new(0);
        let pack = |w: &Poly| -> Vec<u8> {
            // the output buffer arrives pre-filled (all-ones, a pattern, zeros in turn): the encoding must be
            // a function of the coefficients only, whatever the destination held before
            let fill = [0xFFu8, 0xA5, 0x00, 0x5A][fill_ctr.fetch_add(1, std::sync::atomic::Ordering::Relaxed) % 4];
            let mut out = vec![fill; nbytes];
            if simple { hk::simple_bit_pack(&to_i32(w), b as i32, &mut out) } else { hk::bit_pack(&to_i32(w), a as i32, b as i32, &mut out) }
            out
        };
        let unpack = |v: &[u8]| -> Result<Poly, &'static str> {
            (if simple { hk::simple_bit_unpack(v, b as i32) } else { hk::bit_unpack(v, a as i32, b as i32) }).map(|p| crate::sets::to_i64(&p))
        };
        let ref_pack = |w: &Poly| if simple { r::simple_bit_pack(w, b) } else { r::bit_pack(w, a, b) };
        let ref_unpack = |v: &[u8]| if simple { r::simple_bit_unpack(v, b) } else { r::bit_unpack(v, a, b) };
        let in_range = |w: &Poly| w.iter().all(|&x| x >= -a && x <= b);

        // vectors: every value at slots 0,1,127,255 over all-min / all-max backgrounds
        let values: Vec<i64> = if a + b <= 20_000 { (-a..=b).collect() } else {
            let mut v: Vec<i64> = vec![-a, -a + 1, -1, 0, 1, b - 1, b];
            let mut g = Prng::derive(ctx.seed, "c08-values", (a + b) as u64);
            for _ in 0..2000 {
                v.push(g.range(-a, b));
            }
            for s in 0..c {
                v.push((b - (1i64 << s)).max(-a));
                v.push((b - (1i64 << s) + 1).max(-a));
            }
            v
        };
        let jobs: Vec<(usize, i64)> = [0usize, 1, 127, 255].iter().flat_map(|&s| [-a, b].into_iter().map(move |bg| (s, bg))).collect();
        let res = par_map(jobs.len(), |j| {
            let (slot, bg) = jobs[j];
            let mut acc = Acc::new();
            for &v in &values {
                acc.eval();
                let mut w: Poly = [bg; 256];
                w[slot] = v;
                let replay = json!({"kind":"bit-codec","a":a,"b":b,"simple":simple,"slot":slot,"value":v,"background":bg});
                match guarded(|| { let e = pack(&w); let d = unpack(&e); (e, d) }) {
                    Err(pi) => panic_violation(&mut acc, "C08", "bit_pack/bit_unpack", &name, &pi, replay),
                    Ok((e, d)) => {
                        if e != ref_pack(&w) {
                            acc.violation(&format!("C08|bit-pack-differs|{name}"), format!("bit_pack{name} differs from Algorithm 16/17 with value {v} at slot {slot}"), replay);
                        } else if d.as_ref().ok() != Some(&w) {
                            acc.violation(&format!("C08|bit-unpack-of-pack|{name}"), format!("bit_unpack(bit_pack(w)) != w for value {v} at slot {slot}: {:?}", d.as_ref().err()), replay);
                        } else {
                            acc.nontrivial(digest64(&[name.as_bytes(), &e]));
                        }
                    }
                }
            }
            acc
        });
        for x in res {
            acc.merge(x);
        }
        // random vectors and random byte strings
        let res = par_map(16, |sh| {
            let mut acc = Acc::new();
            let mut g = Prng::derive(ctx.seed, &format!("c08-bits-{name}"), sh as u64);
            for _ in 0..n_rand / 16 + 1 {
                acc.eval();
                let w: Poly = core::array::from_fn(|_| g.range(-a, b));
                match guarded(|| { let e = pack(&w); let d = unpack(&e); (e, d) }) {
                    Ok((e, Ok(d))) if d == w && e == ref_pack(&w) => acc.nontrivial(digest64(&[name.as_bytes(), &e])),
                    Ok(_) => acc.violation(&format!("C08|bit-codec-random-vector|{name}"), "pack/unpack of a random in-range vector disagrees with the reference".into(), json!({"kind":"bit-codec-vector","a":a,"b":b,"simple":simple,"w":w.to_vec()})),
                    Err(pi) => panic_violation(&mut acc, "C08", "bit_pack/bit_unpack", &name, &pi, json!({"kind":"bit-codec-vector","a":a,"b":b,"simple":simple,"w":w.to_vec()})),
                }
                acc.eval();
                let v = match g.below(4) {
                    0 => vec![0u8; nbytes],
                    1 => vec![0xFFu8; nbytes],
                    _ => g.bytes(nbytes),
                };
                let rw = ref_unpack(&v);
                let replay = json!({"kind":"bit-codec-bytes","a":a,"b":b,"simple":simple,"v":hex(&v)});
                match guarded(|| unpack(&v)) {
                    Err(pi) => panic_violation(&mut acc, "C08", "bit_unpack", &name, &pi, replay),
                    Ok(Ok(d)) => {
                        if d != rw {
                            acc.violation(&format!("C08|bit-unpack-differs|{name}"), "bit_unpack differs from Algorithm 18/19 on a byte string".into(), replay);
                        } else if in_range(&d) {
                            match guarded(|| pack(&d)) {
                                Ok(e) if e == v => {
                                    acc.count(&format!("bytes_roundtrip_{name}"), 1);
                                    acc.nontrivial(digest64(&[name.as_bytes(), &v]));
                                }
                                Ok(_) => acc.violation(&format!("C08|bit-pack-of-unpack|{name}"), "bit_pack(bit_unpack(v)) != v: two byte strings read as the same vector".into(), replay),
                                Err(pi) => panic_violation(&mut acc, "C08", "bit_pack", &name, &pi, replay),
                            }
                        } else {
                            // decoded out-of-range values accepted: C08 is silent (that is C10's question)
                            acc.count(&format!("accepted_out_of_range_{name}"), 1);
                        }
                    }
                    Ok(Err(_)) => {
                        if in_range(&rw) {
                            acc.violation(&format!("C08|bit-unpack-rejects-in-range|{name}"), "bit_unpack rejects a byte string all of whose fields are in range: packing is not onto".into(), replay);
                        } else {
                            acc.count(&format!("rejected_out_of_range_{name}"), 1);
                            acc.nontrivial(digest64(&[name.as_bytes(), &v]));
                        }
                    }
                }
            }
            acc
        });
        for x in res {
            acc.merge(x);
        }
    }
    acc.sample(json!({"codec": "bit_pack/bit_unpack", "shapes_a_b": shapes.iter().map(|s| format!("({},{}){}", s.0, s.1, if s.2 { " simple" } else { "" })).collect::<Vec<_>>(), "example": "w = all -eta except w[127] = +eta, (a,b) = (2,2): unpack(pack(w)) == w and pack equals Algorithm 17"}));
}
