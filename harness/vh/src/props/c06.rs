//! C06 — signatures are bound to context, mode and pre-hash function.

use crate::for_sets;
use crate::gen;
use crate::guard::guarded;
use crate::props::common::*;
use crate::props::StageOut;
use crate::sets::PS;
use crate::util::{digest64, hex, hex_short, par_map, Acc, Prng};
use crate::Ctx;
use refimpl as r;
use refimpl::{Mode, MODES};
use serde_json::json;

const RULE: &str = "for honest keys and signed (M, ctx, mode): (1) every other split i != |ctx|, i <= 255, of the concatenation ctx||M into (ctx', M') must be rejected in the same mode; (1b) every single-byte change of the context (all positions), the context truncated/extended by one byte, message bytes changed/extended/truncated must be rejected; (1c) context and message made of bytes that imitate a length byte at every position (ctx[j] = j, M[i] = |ctx|+1+i): moving the real length byte to any other position of ctx||len||M must be rejected; (2) cross-mode mimicry, including every split of ctx||OID||PH(M) under pure verify and pure signatures over splits shifted by up to two bytes under hash_verify: the pure signature of OID||PH(M) (also with domain and length bytes prepended) must be rejected by hash_verify(M, PH), and a pre-hash signature must be rejected by pure verify of OID||PH(M) and of the literal formatted bytes; (2b) a pre-hash signature must be rejected by pure verify of every split (at and next to the component boundaries) of OID||ctx||PH(M), OID||ctx||M, ctx||OID||M, ctx||M||OID, ctx||PH(M)||OID, and by hash_verify with the OID (or OID||ctx) in the role of the context under every PH; (2c) pure signatures whose context is OID||ctx or ctx||OID over M or PH(M) must be rejected by hash_verify(M, ctx, PH) — the empty context, 3, 11 and 255 bytes are covered deterministically; (4) for messages just past 4 KiB .. 1 MiB: a changed byte at the start, middle, end and on both sides of every power-of-two offset, truncation to every power of two, by one byte, and extensions must be rejected; (5) on 64-bit hosts a pure signature over 0^15 must not verify for 0^(2^32+15) (thorough: and vice versa); (3) every other pre-hash function (incl. SHA-256 vs SHAKE128 which share the digest length) and the other mode must reject; the original must verify. The reference is run on every alternative as well (it must also say false). Non-trivial = distinct alternative interpretations evaluated against a signature that verifies under its own interpretation.";

pub fn run(ctx: &Ctx) -> StageOut {
    let mut acc = Acc::new();
    if !oracle_gate(ctx, &mut acc) {
        return StageOut::new("C06", RULE, false, acc);
    }
    for a in for_sets!(ctx.sets, run_set(ctx)) {
        acc.merge(a);
    }
    StageOut::new("C06", RULE, false, acc)
}

/// Evaluate one alternative interpretation; it must be rejected.
fn alt<S: PS>(acc: &mut Acc, pk: &S::Pk, pk_b: &[u8], class: &str, m: &[u8], cx: &[u8], mode: Mode, sig: &[u8], with_ref: bool) {
    let p = S::p();
    acc.eval();
    let replay = || {
        let mut v = case_json(S::SET, mode, pk_b, None, m, cx, None, Some(sig));
        v["kind"] = json!("verify-diff");
        v["class"] = json!(format!("c06-{class}"));
        v
    };
    match guarded(|| S::verify(pk, m, sig, cx, mode)) {
        Err(pi) => panic_violation(acc, "C06", "verify", class, &pi, replay()),
        Ok(true) => {
            let refv = r::verify(p, pk_b, m, sig, cx, mode);
            if refv {
                acc.violation(&format!("C06|alt-accepted-by-reference-too|{}|{class}", p.name), "alternative interpretation verifies under the crate AND the reference: the signature was made over the formatted message of another interpretation (signer fault), or formatted encodings collide".into(), replay());
            } else {
                acc.violation(&format!("C06|alt-accepted|{}|{class}|{}", p.name, mode.name()), format!("signature accepted under a different interpretation ({class}, {})", mode.name()), replay());
            }
        }
        Ok(false) => {
            acc.count(&format!("rejected_{class}"), 1);
            acc.nontrivial(digest64(&[&[S::SET as u8], class.as_bytes(), m, cx, mode.name().as_bytes(), sig]));
            if with_ref {
                acc.count("reference_cross_checks", 1);
                if r::verify(p, pk_b, m, sig, cx, mode) {
                    acc.violation(&format!("C06|reference-accepts-alt|{}|{class}", p.name), "reference accepts an alternative interpretation (harness or reference error?)".into(), replay());
                }
            }
        }
    }
}

fn run_set<S: PS>(ctx: &Ctx) -> Acc {
    let p = S::p();
    let n_jobs = ctx.budget(12, 480) as usize;
    let accs = par_map(n_jobs, |ji| {
        let mut acc = Acc::new();
        let mut g = Prng::derive(ctx.seed, &format!("c06-{}", p.name), ji as u64);
        let xi = g.arr32();
        let (pk_b, sk_b) = r::keygen_internal(p, &xi);
        let (Ok(Ok(sk)), Ok(Ok(pk))) = (guarded(|| S::sk_from(&sk_b)), guarded(|| S::pk_from(&pk_b))) else {
            acc.inconclusive("cannot load keys".into());
            return acc;
        };
        for mode in MODES {
            // ---- (1) splits ---------------------------------------------------------------
            // deterministic coverage of the context lengths (255 = the limit, 254, and short ones)
            let cls = [255usize, 0, 1, 254, 2, 16, 100];
            let cl = cls[(ji + mode as usize) % cls.len()];
            let ml = *g.pick(&[0usize, 1, 5, 40, 300]);
            let mut cx = gen::context(&mut g, cl);
            let mut m = gen::message(&mut g, ml);
            // make the length-byte ambiguity as tempting as possible: bytes that look like lengths
            if !m.is_empty() && g.below(2) == 0 {
                m[0] = cl as u8;
            }
            if !cx.is_empty() && g.below(2) == 0 {
                let last = cx.len() - 1;
                cx[last] = (cl.saturating_sub(1)) as u8;
            }
            let rnd = g.arr32();
            let Ok((Ok(sig), _)) = sign_replay::<S>(&sk, &m, &cx, mode, &rnd) else {
                acc.inconclusive("honest sign failed (see C01)".into());
                continue;
            };
            if !matches!(guarded(|| S::verify(&pk, &m, &sig, &cx, mode)), Ok(true)) {
                acc.violation(&format!("C06|original-rejected|{}|{}", p.name, mode.name()), "signature does not verify under its own interpretation (see C01)".into(), json!({"kind":"c01","set":S::SET}));
                continue;
            }
            acc.count("originals_verified", 1);
            let mut cat = cx.clone();
            cat.extend_from_slice(&m);
            let max_i = cat.len().min(255);
            for i in 0..=max_i {
                if i == cx.len() {
                    continue;
                }
                alt::<S>(&mut acc, &pk, &pk_b, "split", &cat[i..], &cat[..i], mode, &sig, i % 16 == 0);
            }
            // ---- (1b) near-miss contexts and messages: every byte position of the context ------
            for pos in 0..cx.len() {
                let mut c2 = cx.clone();
                c2[pos] ^= if pos % 2 == 0 { 0x01 } else { 0x80 };
                alt::<S>(&mut acc, &pk, &pk_b, "ctx-byte-changed", &m, &c2, mode, &sig, pos % 32 == 0 || pos + 1 == cx.len());
            }
            if !cx.is_empty() {
                alt::<S>(&mut acc, &pk, &pk_b, "ctx-truncated", &m, &cx[..cx.len() - 1], mode, &sig, true);
            }
            if cx.len() < 255 {
                let mut c2 = cx.clone();
                c2.push(0);
                alt::<S>(&mut acc, &pk, &pk_b, "ctx-extended", &m, &c2, mode, &sig, true);
            }
            for pos in [0usize, m.len() / 2, m.len().saturating_sub(1)] {
                if pos < m.len() {
                    let mut m2 = m.clone();
                    m2[pos] ^= 0x01;
                    alt::<S>(&mut acc, &pk, &pk_b, "msg-byte-changed", &m2, &cx, mode, &sig, false);
                }
            }
            {
                let mut m2 = m.clone();
                m2.push(0);
                alt::<S>(&mut acc, &pk, &pk_b, "msg-extended", &m2, &cx, mode, &sig, false);
                if !m.is_empty() {
                    alt::<S>(&mut acc, &pk, &pk_b, "msg-truncated", &m[..m.len() - 1], &cx, mode, &sig, false);
                }
            }
            // ---- (1c) content that imitates a length byte at EVERY position: ctx[j] = j and M[i] = |ctx| + 1 + i.
            // If the length byte were absorbed after the context (or the boundary were found by scanning for
            // it), (ctx || [|ctx|] || M[..i], M[i+1..]) and (ctx[..j], ctx[j+1..] || [|ctx|] || M) would be the
            // same message as (ctx, M): all of them must be rejected.
            {
                let clr = *g.pick(&[1usize, 16, 100]);
                let cxr: Vec<u8> = (0..clr).map(|j| j as u8).collect();
                let mr: Vec<u8> = (0..40usize).map(|i| (clr + 1 + i) as u8).collect();
                let rnd = g.arr32();
                if let Ok((Ok(sigr), _)) = sign_replay::<S>(&sk, &mr, &cxr, mode, &rnd) {
                    if matches!(guarded(|| S::verify(&pk, &mr, &sigr, &cxr, mode)), Ok(true)) {
                        for i in 0..mr.len() {
                            let mut c2 = cxr.clone();
                            c2.push(clr as u8);
                            c2.extend_from_slice(&mr[..i]);
                            if c2.len() <= 255 {
                                alt::<S>(&mut acc, &pk, &pk_b, "length-byte-moved-into-ctx", &mr[i + 1..], &c2, mode, &sigr, i % 8 == 0);
                            }
                        }
                        for j in 0..cxr.len() {
                            let mut m2 = cxr[j + 1..].to_vec();
                            m2.push(clr as u8);
                            m2.extend_from_slice(&mr);
                            alt::<S>(&mut acc, &pk, &pk_b, "length-byte-moved-into-msg", &m2, &cxr[..j], mode, &sigr, j % 8 == 0);
                        }
                        // the length byte dropped / doubled
                        let mut m2 = vec![clr as u8];
                        m2.extend_from_slice(&mr);
                        alt::<S>(&mut acc, &pk, &pk_b, "length-byte-repeated-in-msg", &m2, &cxr, mode, &sigr, true);
                    }
                }
            }
            // ---- (3) other PH / other mode -----------------------------------------------
            for other in MODES {
                if other != mode {
                    alt::<S>(&mut acc, &pk, &pk_b, "other-mode-or-ph", &m, &cx, other, &sig, true);
                }
            }
            if acc.samples.len() < 3 {
                acc.sample(json!({"set": p.name, "signed": {"mode": mode.name(), "ctx": hex_short(&cx), "message": hex_short(&m)},
                    "alternatives": {"splits": max_i + 1 - usize::from(cx.len() <= max_i), "other_modes": 3}, "sig": hex_short(&sig)}));
            }
        }
        // ---- (4) long messages: every part of a long message is bound ---------------------------
        let long = gen::long_message_lengths(&mut g);
        if ji < long.len() {
            let ml = long[ji];
            for mode in MODES {
                let m = g.bytes(ml);
                let cl = *g.pick(&[0usize, 7, 255]);
                let cx = gen::context(&mut g, cl);
                let rnd = g.arr32();
                let Ok((Ok(sig), _)) = sign_replay::<S>(&sk, &m, &cx, mode, &rnd) else {
                    acc.inconclusive("honest sign of a long message failed (see C01)".into());
                    continue;
                };
                if !matches!(guarded(|| S::verify(&pk, &m, &sig, &cx, mode)), Ok(true)) {
                    acc.violation(&format!("C06|original-rejected|{}|{}", p.name, mode.name()), "signature over a long message does not verify under its own interpretation (see C01)".into(), json!({"kind":"c01","set":S::SET}));
                    continue;
                }
                acc.count("long_originals_verified", 1);
                // positions: the last byte, the first byte, and the bytes on both sides of every power-of-two
                // boundary inside the message
                let mut poss = vec![0usize, ml - 1, ml / 2];
                let mut b = 64usize;
                while b < ml {
                    poss.push(b - 1);
                    poss.push(b);
                    b *= 2;
                }
                for pos in poss {
                    let mut m2 = m.clone();
                    m2[pos] ^= 0x40;
                    alt::<S>(&mut acc, &pk, &pk_b, "long-msg-byte-changed", &m2, &cx, mode, &sig, pos + 1 == ml);
                }
                // truncations to every power of two below the length, by one byte, and extensions
                let mut b = 4096usize;
                while b < ml {
                    alt::<S>(&mut acc, &pk, &pk_b, "long-msg-truncated-to-boundary", &m[..b], &cx, mode, &sig, false);
                    b *= 2;
                }
                alt::<S>(&mut acc, &pk, &pk_b, "long-msg-truncated", &m[..ml - 1], &cx, mode, &sig, true);
                let mut m2 = m.clone();
                m2.push(0);
                alt::<S>(&mut acc, &pk, &pk_b, "long-msg-extended", &m2, &cx, mode, &sig, true);
                m2.extend_from_slice(&g.bytes(5000));
                alt::<S>(&mut acc, &pk, &pk_b, "long-msg-extended", &m2, &cx, mode, &sig, false);
            }
        }
        // ---- (5) messages beyond 2^32 bytes (pure mode, 64-bit hosts): a length or offset kept in 32 bits
        // makes (M0) and (M0 || 2^32 more bytes) the same message. One set per run in quick (4 GiB are
        // hashed once per probe), release build only; every set and both directions in thorough.
        let my_turn = (ctx.seed % 3) as usize == [44u32, 65, 87].iter().position(|&s| s == p.set).unwrap_or(0);
        if ji == 0 && usize::BITS >= 64 && (ctx.thorough() || (my_turn && !ctx.checked_build())) {
            let n_long = (1usize << 32) + 15;
            match ZeroBuf::new(n_long + 1) {
                None => acc.inconclusive(format!("{}: cannot reserve a 4 GiB zero buffer for the huge-message probe", p.name)),
                Some(z) => {
                    let rnd = g.arr32();
                    let short = z.get(15);
                    if let Ok((Ok(sig), _)) = sign_replay::<S>(&sk, short, &[], Mode::Pure, &rnd) {
                        acc.eval();
                        let replay = json!({"kind":"c06-huge","set":S::SET,"what":"signature over 0^15 verified against 0^(2^32+15)"});
                        match guarded(|| S::verify(&pk, z.get(n_long), &sig, &[], Mode::Pure)) {
                            Ok(false) => {
                                acc.count("huge_message_alias_rejected", 1);
                                acc.nontrivial(digest64(&[&[S::SET as u8], b"huge-msg-alias"]));
                            }
                            Ok(true) => acc.violation(&format!("C06|alt-accepted|{}|msg-extended-by-2^32|pure", p.name), "a signature over a 15-byte message verifies for that message followed by 2^32 more bytes".into(), replay),
                            Err(pi) => panic_violation(&mut acc, "C06", "verify", "huge-message", &pi, replay),
                        }
                    }
                    if ctx.thorough() {
                        if let Ok((Ok(sig), _)) = sign_replay::<S>(&sk, z.get(n_long), &[], Mode::Pure, &rnd) {
                            acc.eval();
                            let replay = json!({"kind":"c06-huge","set":S::SET,"what":"signature over 0^(2^32+15) verified against 0^15"});
                            match guarded(|| S::verify(&pk, short, &sig, &[], Mode::Pure)) {
                                Ok(false) => {
                                    acc.count("huge_message_alias_rejected", 1);
                                    acc.nontrivial(digest64(&[&[S::SET as u8], b"huge-msg-alias-2"]));
                                }
                                Ok(true) => acc.violation(&format!("C06|alt-accepted|{}|msg-truncated-by-2^32|pure", p.name), "a signature over a 2^32+15-byte message verifies for its first 15 bytes".into(), replay),
                                Err(pi) => panic_violation(&mut acc, "C06", "verify", "huge-message", &pi, replay),
                            }
                        }
                    }
                }
            }
        }
        // ---- (2) cross-mode mimicry ----------------------------------------------------------
        for ph in [Mode::Sha256, Mode::Sha512, Mode::Shake128] {
            // deterministic coverage of the empty context (the OID is then the only thing between the header and
            // the digest), a short one, and the limit
            let cl = [0usize, 3, 255, 11][(ji + ph as usize) % 4];
            let cx = gen::context(&mut g, cl);
            let m = gen::message(&mut g, 50);
            let mut mimic = r::oid(ph);
            mimic.extend(r::prehash(ph, &m));
            let rnd = g.arr32();
            // pure signature over OID || PH(M), same ctx -> hash_verify(M, PH) must reject
            if let Ok((Ok(sig), _)) = sign_replay::<S>(&sk, &mimic, &cx, Mode::Pure, &rnd) {
                alt::<S>(&mut acc, &pk, &pk_b, "pure-sig-as-hash", &m, &cx, ph, &sig, true);
            }
            // pure signature over the literal hash-mode M' with empty ctx
            let literal = r::format_message(ph, &m, &cx).unwrap();
            if let Ok((Ok(sig), _)) = sign_replay::<S>(&sk, &literal, &[], Mode::Pure, &rnd) {
                alt::<S>(&mut acc, &pk, &pk_b, "pure-sig-of-literal-as-hash", &m, &cx, ph, &sig, true);
            }
            // pure signature over literal minus the domain byte, ctx = [] (targets a dropped domain byte)
            if let Ok((Ok(sig), _)) = sign_replay::<S>(&sk, &literal[1..], &[], Mode::Pure, &rnd) {
                alt::<S>(&mut acc, &pk, &pk_b, "pure-sig-of-literal-tail-as-hash", &m, &cx, ph, &sig, false);
            }
            // every split of B = ctx || OID || PH(M0): a pure signature over (B[..i], B[i..]) must not be a
            // pre-hash signature of (M0, ctx) (a header whose two bytes are mixed up moves the boundary by one)
            {
                let mut bcat = cx.clone();
                bcat.extend_from_slice(&mimic);
                let lo = cx.len().saturating_sub(2);
                let hi = (cx.len() + 2).min(255).min(bcat.len());
                for i in lo..=hi {
                    if let Ok((Ok(sig), _)) = sign_replay::<S>(&sk, &bcat[i..], &bcat[..i], Mode::Pure, &rnd) {
                        alt::<S>(&mut acc, &pk, &pk_b, "pure-sig-of-shifted-split-as-hash", &m, &cx, ph, &sig, false);
                    }
                }
            }
            // hash signature -> pure verify of OID || PH(M) (same ctx), and of the literal bytes
            if let Ok((Ok(sig), _)) = sign_replay::<S>(&sk, &m, &cx, ph, &rnd) {
                alt::<S>(&mut acc, &pk, &pk_b, "hash-sig-as-pure", &mimic, &cx, Mode::Pure, &sig, true);
                // ... and under pure verify for EVERY split of ctx || OID || PH(M0)
                let mut bcat = cx.clone();
                bcat.extend_from_slice(&mimic);
                for i in 0..=bcat.len().min(255) {
                    alt::<S>(&mut acc, &pk, &pk_b, "hash-sig-as-pure-any-split", &bcat[i..], &bcat[..i], Mode::Pure, &sig, i % 32 == 0);
                }
                alt::<S>(&mut acc, &pk, &pk_b, "hash-sig-as-pure-literal", &literal, &[], Mode::Pure, &sig, false);
                alt::<S>(&mut acc, &pk, &pk_b, "hash-sig-as-pure-literal-tail", &literal[1..], &[], Mode::Pure, &sig, false);
                // digest passed as the message to the same PH (double hashing) and to pure
                alt::<S>(&mut acc, &pk, &pk_b, "hash-sig-digest-as-message", &r::prehash(ph, &m), &cx, ph, &sig, false);
                alt::<S>(&mut acc, &pk, &pk_b, "hash-sig-digest-as-pure-message", &r::prehash(ph, &m), &cx, Mode::Pure, &sig, false);
                // (2b) the components of M' in any other order / role: every split of every ordering of
                // {ctx, OID} followed by the raw message or the digest, under pure verify (arguments of the
                // same type swapped between the front end and the internal function: ctx <-> OID, M <-> PH(M))
                let oid = r::oid(ph);
                let dg = r::prehash(ph, &m);
                for (name, parts) in [
                    ("oid-ctx-digest", vec![&oid[..], &cx[..], &dg[..]]),
                    ("oid-ctx-msg", vec![&oid[..], &cx[..], &m[..]]),
                    ("ctx-oid-msg", vec![&cx[..], &oid[..], &m[..]]),
                    ("ctx-msg-oid", vec![&cx[..], &m[..], &oid[..]]),
                    ("ctx-digest-oid", vec![&cx[..], &dg[..], &oid[..]]),
                ] {
                    let pcat: Vec<u8> = parts.concat();
                    // splits at the component boundaries and one byte on either side of them
                    let mut cuts = vec![0usize];
                    let mut off = 0usize;
                    for part in &parts {
                        off += part.len();
                        for d in [off.saturating_sub(1), off, off + 1] {
                            if d <= pcat.len() && d <= 255 {
                                cuts.push(d);
                            }
                        }
                    }
                    cuts.sort_unstable();
                    cuts.dedup();
                    for i in cuts {
                        alt::<S>(&mut acc, &pk, &pk_b, &format!("hash-sig-as-pure-permuted-{name}"), &pcat[i..], &pcat[..i], Mode::Pure, &sig, false);
                    }
                }
                // the OID in the role of the context under hash_verify (with every PH), the context in the
                // role of the message prefix
                for ph2 in [Mode::Sha256, Mode::Sha512, Mode::Shake128] {
                    // (gen::context may itself produce an OID as the context: then this IS the signed interpretation)
                    if !(ph2 == ph && oid == cx) {
                        alt::<S>(&mut acc, &pk, &pk_b, "hash-sig-oid-as-ctx", &m, &oid, ph2, &sig, false);
                    }
                    let mut oc = oid.clone();
                    oc.extend_from_slice(&cx);
                    if oc.len() <= 255 && !cx.is_empty() {
                        alt::<S>(&mut acc, &pk, &pk_b, "hash-sig-oid-ctx-as-ctx", &m, &oc, ph2, &sig, false);
                    }
                }
            }
            // (2c) the reverse direction: pure signatures whose context is the OID (followed / preceded by the
            // context) over the raw message or the digest must not be pre-hash signatures of (M, ctx)
            {
                let oid = r::oid(ph);
                let dg = r::prehash(ph, &m);
                let mut oc = oid.clone();
                oc.extend_from_slice(&cx);
                let mut co = cx.clone();
                co.extend_from_slice(&oid);
                for (name, c2) in [("oid-ctx", &oc), ("ctx-oid", &co)] {
                    if c2.len() > 255 {
                        continue;
                    }
                    for (mname, m2) in [("msg", &m), ("digest", &dg)] {
                        if let Ok((Ok(sig), _)) = sign_replay::<S>(&sk, m2, c2, Mode::Pure, &rnd) {
                            alt::<S>(&mut acc, &pk, &pk_b, &format!("pure-sig-with-{name}-context-over-{mname}-as-hash"), &m, &cx, ph, &sig, false);
                        }
                    }
                }
            }
        }
        let _ = hex(&xi);
        acc
    });
    Acc::merge_all(accs)
}
