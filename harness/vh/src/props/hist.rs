//! hist — histories of API calls over pools of long-lived key objects, checked step by step against
//! the stateless reference model.
//!
//! Every other stage evaluates one call (or one sign/verify pair) on fresh objects. Here each job keeps a
//! pool of key objects of ALL THREE parameter sets alive in one thread and applies a long random sequence
//! of operations to them: sign, verify signatures made many steps earlier (also by other keys), derive
//! public keys, serialise, clone, drop and re-import, generate keys, and calls that fail (over-long
//! context, malformed key, mangled signature) in between. The pool holds *near-twin* keys: the same key
//! with one byte of rho / K / tr changed at several positions, the same rho with other secrets, a public
//! key with one t1 coefficient changed. The specification is stateless, so the expected result of every
//! step is the reference's answer for that step alone; anything remembered from an earlier call (a cache
//! keyed on part of a key, scratch state that survives an error path, state shared between parameter
//! sets) shows up as a mismatch at some step.
//!
//! The stage is shared: `--opt prop=Cxx` selects which kind of mismatch is judged (the other operations
//! still run, they are what creates the history).

use crate::guard::guarded;
use crate::props::common::*;
use crate::props::StageOut;
use crate::sets::{PS, S44, S65, S87};
use crate::util::{digest64, hex, par_map, Acc, Prng};
use crate::Ctx;
use refimpl as r;
use refimpl::{Mode, MODES};
use serde_json::json;

const RULE: &str = "per job one thread keeps a pool of key objects of all three parameter sets alive (generated, imported, derived, cloned; near-twin keys: one byte of rho / K / tr changed at positions 0, 7, 8, 16, 31, same rho with other secrets, one t1 coefficient changed) and applies a random sequence of operations (quick 1200, thorough 20000 steps per job, 16 jobs in parallel threads): sign (all modes; also with an over-long context), verify a signature recorded earlier in the history under any pool key, verify a mangled signature, get_public_key, into_bytes, clone+drop, drop+re-import, keygen_from_seed, import of a malformed private key. Every step's result must equal the stateless reference's answer for that step alone (bytes of signatures and keys, verdicts, Ok/Err). The property named by --opt prop selects which kind of step is judged. Non-trivial = distinct (set, operation, preceding operation, object) contexts in which a judged step matched.";

pub fn run(ctx: &Ctx) -> StageOut {
    let prop = ctx.opt_str("prop").unwrap_or("C03").to_string();
    let mut acc = Acc::new();
    if !oracle_gate(ctx, &mut acc) {
        return StageOut::new(&prop, RULE, false, acc);
    }
    let steps = ctx.budget(1200, 20_000) as usize;
    let accs = par_map(16, |job| run_job(ctx, &prop, job, steps));
    for a in accs {
        acc.merge(a);
    }
    StageOut::new(&prop, RULE, false, acc)
}

struct SigRec {
    m: Vec<u8>,
    cx: Vec<u8>,
    mode: Mode,
    sig: Vec<u8>,
}

struct Pool<S: PS> {
    sks: Vec<(S::Sk, Vec<u8>, &'static str)>,
    pks: Vec<(S::Pk, Vec<u8>, &'static str)>,
    sigs: Vec<SigRec>,
    seeds: Vec<[u8; 32]>,
    last_sig: usize,
}

fn build_pool<S: PS>(g: &mut Prng, acc: &mut Acc) -> Option<Pool<S>> {
    let p = S::p();
    let mut pool = Pool::<S> { sks: Vec::new(), pks: Vec::new(), sigs: Vec::new(), seeds: Vec::new(), last_sig: 0 };
    let xi = g.arr32();
    let xi2 = g.arr32();
    pool.seeds = vec![xi, xi2, [0u8; 32], g.arr32()];
    let (pk_b, sk_b) = r::keygen_internal(p, &xi);
    let (pk2_b, sk2_b) = r::keygen_internal(p, &xi2);
    let parts = r::sk_decode(p, &sk_b);
    let parts2 = r::sk_decode(p, &sk2_b);
    let mut sk_list: Vec<(Vec<u8>, &'static str)> = vec![(sk_b.clone(), "generated"), (sk2_b.clone(), "second-key")];
    for &pos in &[0usize, 7, 8, 16, 31] {
        let mut rho = parts.rho.clone();
        rho[pos] ^= 0x01;
        sk_list.push((r::sk_encode(p, &rho, &parts.key, &parts.tr, &parts.s1, &parts.s2, &parts.t0), "twin-rho-byte"));
        let mut key = parts.key.clone();
        key[pos] ^= 0x80;
        sk_list.push((r::sk_encode(p, &parts.rho, &key, &parts.tr, &parts.s1, &parts.s2, &parts.t0), "twin-K-byte"));
    }
    for &pos in &[0usize, 31, 32, 63] {
        let mut tr = parts.tr.clone();
        tr[pos] ^= 0x10;
        sk_list.push((r::sk_encode(p, &parts.rho, &parts.key, &tr, &parts.s1, &parts.s2, &parts.t0), "twin-tr-byte"));
    }
    // same rho and tr, the other key's secrets; and the other key's rho with these secrets
    sk_list.push((r::sk_encode(p, &parts.rho, &parts.key, &parts.tr, &parts2.s1, &parts2.s2, &parts2.t0), "same-rho-other-secrets"));
    sk_list.push((r::sk_encode(p, &parts2.rho, &parts.key, &parts.tr, &parts.s1, &parts.s2, &parts.t0), "other-rho-same-secrets"));
    for (b, prov) in sk_list {
        match guarded(|| S::sk_from(&b)) {
            Ok(Ok(o)) => pool.sks.push((o, b, prov)),
            _ => {
                acc.inconclusive(format!("{}: cannot import the {prov} private key (see C10/C13)", p.name));
                return None;
            }
        }
    }
    let mut pk_list: Vec<(Vec<u8>, &'static str)> = vec![(pk_b.clone(), "generated"), (pk2_b, "second-key")];
    for &pos in &[0usize, 7, 8, 16, 31] {
        let mut b = pk_b.clone();
        b[pos] ^= 0x01;
        pk_list.push((b, "twin-rho-byte"));
    }
    {
        let mut b = pk_b.clone();
        let last = b.len() - 1;
        b[last] ^= 0x40;
        pk_list.push((b, "twin-t1-coefficient"));
        let mut b = pk_b.clone();
        b[32] ^= 0x01;
        pk_list.push((b, "twin-t1-coefficient"));
    }
    for (b, prov) in pk_list {
        match guarded(|| S::pk_from(&b)) {
            Ok(Ok(o)) => pool.pks.push((o, b, prov)),
            _ => {
                acc.inconclusive(format!("{}: cannot import the {prov} public key", p.name));
                return None;
            }
        }
    }
    // the generated objects themselves (not re-imported)
    if let Ok((pk, sk)) = guarded(|| S::keygen_seed(&xi)) {
        pool.pks.push((pk, pk_b, "generated-object"));
        pool.sks.push((sk, sk_b, "generated-object"));
    }
    Some(pool)
}

#[derive(Clone, Copy, PartialEq, Eq, Debug)]
enum Op {
    Sign,
    SignLongCtx,
    VerifyRecorded,
    VerifyMangled,
    Derive,
    SkBytes,
    PkBytes,
    CloneDrop,
    Reimport,
    Keygen,
    BadSk,
}

impl Op {
    /// the property under which a mismatch at this step is judged
    fn prop(self) -> &'static str {
        match self {
            Op::Sign => "C03",
            Op::SignLongCtx => "C07",
            Op::VerifyRecorded | Op::VerifyMangled => "C02",
            Op::Derive => "C11",
            Op::SkBytes | Op::PkBytes | Op::CloneDrop | Op::Reimport => "C09",
            Op::Keygen => "C04",
            Op::BadSk => "C10",
        }
    }
}

const OPS: [(Op, u64); 11] = [
    (Op::Sign, 22),
    (Op::SignLongCtx, 3),
    (Op::VerifyRecorded, 30),
    (Op::VerifyMangled, 8),
    (Op::Derive, 8),
    (Op::SkBytes, 5),
    (Op::PkBytes, 5),
    (Op::CloneDrop, 4),
    (Op::Reimport, 5),
    (Op::Keygen, 6),
    (Op::BadSk, 4),
];

struct StepCtx<'a> {
    prop: &'a str,
    job: usize,
    step: usize,
    prev: Option<Op>,
    seed: u64,
    tier: &'a str,
}

fn step<S: PS>(pool: &mut Pool<S>, g: &mut Prng, acc: &mut Acc, sc: &StepCtx) -> Op {
    let p = S::p();
    let total: u64 = OPS.iter().map(|x| x.1).sum();
    let mut pick = g.below(total);
    let mut op = Op::Sign;
    for (o, w) in OPS {
        if pick < w {
            op = o;
            break;
        }
        pick -= w;
    }
    if matches!(op, Op::VerifyRecorded | Op::VerifyMangled) && pool.sigs.is_empty() {
        op = Op::Sign;
    }
    let judged = op.prop() == sc.prop || (sc.prop == "C01" && op == Op::VerifyRecorded);
    acc.count(&format!("steps_{op:?}"), 1);
    let si = g.below(pool.sks.len() as u64) as usize;
    let pi = g.below(pool.pks.len() as u64) as usize;
    let replay = |what: &str| json!({"kind": "hist", "prop": sc.prop, "job": sc.job, "step": sc.step, "op": format!("{op:?}"), "previous_op": format!("{:?}", sc.prev),
        "set": S::SET, "what": what, "seed": sc.seed, "tier": sc.tier});
    let sig_of = |what: &str| format!("{}|history|{}|{op:?}|{what}", sc.prop, p.name);
    let matched = |acc: &mut Acc, obj: usize| {
        if judged {
            acc.eval();
            acc.nontrivial(digest64(&[&[S::SET as u8], format!("{op:?}{:?}", sc.prev).as_bytes(), &[obj as u8]]));
            acc.count("judged_steps_matched", 1);
        }
    };
    macro_rules! fail {
        ($what:expr, $detail:expr) => {
            if judged {
                acc.eval();
                acc.violation(&sig_of($what), format!("job {} step {} ({op:?} after {:?}): {}", sc.job, sc.step, sc.prev, $detail), replay($what));
            } else {
                acc.count(&format!("unjudged_mismatch_{}_see_that_property", op.prop()), 1);
            }
        };
    }
    match op {
        Op::Sign | Op::SignLongCtx => {
            let mode = *g.pick(&MODES);
            let ml = *g.pick(&[0usize, 1, 16, 33, 200]);
            let m = g.bytes(ml);
            let cl = if op == Op::SignLongCtx { 256 + g.below(40) as usize } else { *g.pick(&[0usize, 0, 1, 17, 255]) };
            let cx = g.bytes(cl);
            let rnd = g.arr32();
            let want = r::sign(p, &pool.sks[si].1, &m, &cx, mode, &rnd);
            match sign_replay::<S>(&pool.sks[si].0, &m, &cx, mode, &rnd) {
                Err(pi_) => {
                    if judged {
                        panic_violation(acc, sc.prop, "sign", "history", &pi_, replay("panic"));
                    }
                }
                Ok((got, _)) => match (got, want) {
                    (Ok(sig), r::SignOut::Sig(w)) => {
                        if sig == w {
                            matched(acc, si);
                            // the signer's own public key is the reference-derived one
                            pool.sigs.push(SigRec { m, cx, mode, sig });
                            if pool.sigs.len() > 64 {
                                let _ = pool.sigs.remove(g.below(32) as usize);
                            }
                        } else {
                            fail!("sign-bytes-differ", format!("signature by the {} key differs from the reference (first differing byte {})", pool.sks[si].2, sig.iter().zip(&w).position(|(a, b)| a != b).unwrap_or(0)));
                        }
                    }
                    (Err(_), r::SignOut::CtxTooLong) => matched(acc, si),
                    (Ok(_), r::SignOut::CtxTooLong) => fail!("sign-accepted-long-ctx", format!("signing with a {cl}-byte context returned a signature")),
                    (Err(e), r::SignOut::Sig(_)) => fail!("sign-err", format!("signing failed ({e}) where the reference signs")),
                    (_, r::SignOut::LoopCap) => {}
                },
            }
        }
        Op::VerifyRecorded | Op::VerifyMangled => {
            // locality: half of the time the signature used by the previous verification step again (with
            // whatever key this step drew), otherwise any recorded one
            let ri = if g.below(2) == 0 && pool.last_sig < pool.sigs.len() { pool.last_sig } else { g.below(pool.sigs.len() as u64) as usize };
            pool.last_sig = ri;
            let rec = &pool.sigs[ri];
            let mut sig = rec.sig.clone();
            if op == Op::VerifyMangled {
                let pos = g.below(sig.len() as u64) as usize;
                sig[pos] ^= 1 << g.below(8);
            }
            let want = r::verify(p, &pool.pks[pi].1, &rec.m, &sig, &rec.cx, rec.mode);
            match guarded(|| S::verify(&pool.pks[pi].0, &rec.m, &sig, &rec.cx, rec.mode)) {
                Err(pi_) => {
                    if judged {
                        panic_violation(acc, sc.prop, "verify", "history", &pi_, replay("panic"));
                    }
                }
                Ok(got) if got == want => {
                    if want {
                        acc.count("verify_true_steps", 1);
                    }
                    matched(acc, pi);
                }
                Ok(got) => fail!(if want { "verify-false-reference-true" } else { "verify-true-reference-false" }, format!("verify with the {} public key returned {got}, the reference {want}", pool.pks[pi].2)),
            }
        }
        Op::Derive => {
            let want = r::pk_from_sk(p, &pool.sks[si].1);
            match guarded(|| {
                let o = S::derive(&pool.sks[si].0);
                let b = S::pk_bytes(&o);
                (o, b)
            }) {
                Err(pi_) => {
                    if judged {
                        panic_violation(acc, sc.prop, "get_public_key", "history", &pi_, replay("panic"));
                    }
                }
                Ok((o, b)) => {
                    if b == want {
                        matched(acc, si);
                        // The derived object carries the private key's tr field. Only for a private key whose
                        // tr is H(pk) (every generated key; not the twins with a changed rho or tr, which are
                        // outside C11's "generated key pair") is it interchangeable with the imported public
                        // key, so only those join the pool of verification keys.
                        let tr_consistent = r::h(&[&b], 64) == r::sk_decode(p, &pool.sks[si].1).tr;
                        if pool.pks.len() < 40 && tr_consistent {
                            pool.pks.push((o, b, "derived"));
                        }
                    } else {
                        fail!("derived-pk-differs", format!("get_public_key of the {} key differs from the reference derivation", pool.sks[si].2));
                    }
                }
            }
        }
        Op::SkBytes => match guarded(|| S::sk_bytes(&pool.sks[si].0)) {
            Ok(b) if b == pool.sks[si].1 => matched(acc, si),
            Ok(_) => fail!("sk-bytes-differ", format!("into_bytes of the {} private key no longer returns its encoding", pool.sks[si].2)),
            Err(pi_) => {
                if judged {
                    panic_violation(acc, sc.prop, "into_bytes", "history", &pi_, replay("panic"));
                }
            }
        },
        Op::PkBytes => match guarded(|| S::pk_bytes(&pool.pks[pi].0)) {
            Ok(b) if b == pool.pks[pi].1 => matched(acc, pi),
            Ok(_) => fail!("pk-bytes-differ", format!("into_bytes of the {} public key no longer returns its encoding", pool.pks[pi].2)),
            Err(pi_) => {
                if judged {
                    panic_violation(acc, sc.prop, "into_bytes", "history", &pi_, replay("panic"));
                }
            }
        },
        Op::CloneDrop => {
            let r_ = guarded(|| {
                let c = pool.sks[si].0.clone();
                let b = S::sk_bytes(&c);
                drop(c);
                let c2 = pool.pks[pi].0.clone();
                let b2 = S::pk_bytes(&c2);
                drop(c2);
                (b, b2)
            });
            match r_ {
                Ok((b, b2)) if b == pool.sks[si].1 && b2 == pool.pks[pi].1 => matched(acc, si),
                Ok(_) => fail!("clone-bytes-differ", "a clone does not serialise to the original's bytes".to_string()),
                Err(pi_) => {
                    if judged {
                        panic_violation(acc, sc.prop, "clone", "history", &pi_, replay("panic"));
                    }
                }
            }
        }
        Op::Reimport => {
            // drop the object and import it again from its bytes (the slot keeps its encoding)
            let b = pool.sks[si].1.clone();
            match guarded(|| S::sk_from(&b)) {
                Ok(Ok(o)) => {
                    pool.sks[si].0 = o;
                    matched(acc, si);
                }
                Ok(Err(e)) => fail!("reimport-rejected", format!("a private key that was accepted before is rejected now: {e}")),
                Err(pi_) => {
                    if judged {
                        panic_violation(acc, sc.prop, "try_from_bytes", "history", &pi_, replay("panic"));
                    }
                }
            }
            let b = pool.pks[pi].1.clone();
            if let Ok(Ok(o)) = guarded(|| S::pk_from(&b)) {
                pool.pks[pi].0 = o;
            }
        }
        Op::Keygen => {
            let xi = *g.pick(&pool.seeds);
            let (want_pk, want_sk) = r::keygen_internal(p, &xi);
            match guarded(|| {
                let (pk, sk) = S::keygen_seed(&xi);
                let b = (S::pk_bytes(&pk), S::sk_bytes(&sk));
                (pk, sk, b)
            }) {
                Err(pi_) => {
                    if judged {
                        panic_violation(acc, sc.prop, "keygen_from_seed", "history", &pi_, replay("panic"));
                    }
                }
                Ok((pk, sk, (pb, sb))) => {
                    if pb == want_pk && sb == want_sk {
                        matched(acc, 0);
                        if pool.sks.len() < 40 {
                            pool.sks.push((sk, sb, "generated-later"));
                            pool.pks.push((pk, pb, "generated-later"));
                        }
                    } else {
                        fail!("keygen-differs", format!("keygen_from_seed({}) differs from the reference at this point of the history", hex(&xi)));
                    }
                }
            }
        }
        Op::BadSk => {
            let mut b = pool.sks[si].1.clone();
            let c = crate::gen::eta_bits(p);
            let n_polys = p.l + p.k;
            let poly = g.below(n_polys as u64) as usize;
            let coeff = g.below(256) as usize;
            crate::gen::set_eta_field(p, &mut b, poly, coeff, (1u8 << c) - 1);
            match guarded(|| S::sk_from(&b).is_ok()) {
                Ok(false) => matched(acc, si),
                Ok(true) => fail!("malformed-sk-accepted", "a private key with an out-of-range field was accepted at this point of the history".to_string()),
                Err(pi_) => {
                    if judged {
                        panic_violation(acc, sc.prop, "try_from_bytes", "history", &pi_, replay("panic"));
                    }
                }
            }
        }
    }
    op
}

fn run_job(ctx: &Ctx, prop: &str, job: usize, steps: usize) -> Acc {
    let mut acc = Acc::new();
    // the history is the same whichever property is judged (the seed does not depend on `prop`)
    let mut g = Prng::derive(ctx.seed, "hist", job as u64);
    let (Some(mut p44), Some(mut p65), Some(mut p87)) = (build_pool::<S44>(&mut g, &mut acc), build_pool::<S65>(&mut g, &mut acc), build_pool::<S87>(&mut g, &mut acc)) else {
        return acc;
    };
    let mut prev: Option<Op> = None;
    let mut run_len = 0usize;
    let mut cur_set = 0u64;
    for s in 0..steps {
        // bursts on one set, then a switch: both tight repetition and interleaving across sets occur
        if run_len == 0 {
            cur_set = g.below(3);
            run_len = 1 + g.below(12) as usize;
        }
        run_len -= 1;
        let sc = StepCtx { prop, job, step: s, prev, seed: ctx.seed, tier: &ctx.tier };
        let op = match cur_set {
            0 if ctx.sets.contains(&44) => step::<S44>(&mut p44, &mut g, &mut acc, &sc),
            1 if ctx.sets.contains(&65) => step::<S65>(&mut p65, &mut g, &mut acc, &sc),
            2 if ctx.sets.contains(&87) => step::<S87>(&mut p87, &mut g, &mut acc, &sc),
            _ => continue,
        };
        prev = Some(op);
    }
    if acc.samples.is_empty() && job == 0 {
        acc.sample(json!({"job": 0, "steps": steps, "pool_sizes": {"ML-DSA-44": [p44.sks.len(), p44.pks.len()], "ML-DSA-65": [p65.sks.len(), p65.pks.len()], "ML-DSA-87": [p87.sks.len(), p87.pks.len()]},
            "private_key_provenances": p44.sks.iter().map(|x| x.2).collect::<std::collections::BTreeSet<_>>(), "judged_property": prop,
            "recorded_signatures_alive": p44.sigs.len() + p65.sigs.len() + p87.sigs.len()}));
    }
    acc
}
