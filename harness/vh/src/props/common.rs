//! Shared pieces: oracle gate, key provenance bundles, monitored calls.

use crate::guard::{guarded, panic_key, short_loc, PanicInfo};
use crate::props::StageOut;
use crate::rngs::RecordingRng;
use crate::sets::PS;
use crate::util::{hex, Acc};
use crate::Ctx;
use refimpl::Mode;
use serde_json::{json, Value};

/// Validate the reference; on failure the stage is inconclusive (never a violation).
pub fn oracle_gate(ctx: &Ctx, acc: &mut Acc) -> bool {
    match crate::oracle::validate(&ctx.fixtures, ctx.thorough()) {
        Ok(r) => {
            acc.count("oracle_acvp_keygen_vectors", r.keygen as u64);
            acc.count("oracle_acvp_siggen_vectors", r.siggen as u64);
            acc.count("oracle_acvp_sigver_vectors", r.sigver as u64);
            acc.count("oracle_ntt_vs_schoolbook", r.ntt_products as u64);
            true
        }
        Err(e) => {
            acc.inconclusive(format!("oracle self-validation failed: {e}"));
            false
        }
    }
}

pub fn oracle_stage(ctx: &Ctx) -> StageOut {
    let mut acc = Acc::new();
    let _ = oracle_gate(ctx, &mut acc);
    StageOut::new("oracle", "reference model vs ACVP vectors and schoolbook multiply", false, acc)
}

pub fn panic_violation(acc: &mut Acc, prop: &str, api: &str, class: &str, pi: &PanicInfo, replay: Value) {
    let loc = short_loc(&pi.location);
    acc.violation(
        &format!("{prop}|panic|{}|{api}|{class}", panic_key(pi)),
        format!("panic in {api} at {loc}: {} (also a C13 violation)", pi.message),
        replay,
    );
}

/// All the ways a key pair can reach the user.
pub struct KeyBundle<S: PS> {
    pub xi: [u8; 32],
    pub pk_bytes: Vec<u8>,
    pub sk_bytes: Vec<u8>,
    pub pk_gen: S::Pk,
    pub sk_gen: S::Sk,
    pub pk_rt: S::Pk,
    pub sk_rt: S::Sk,
    pub pk_der: S::Pk,
    pub pk_der_rt: S::Pk,
}

pub const SK_PROVS: [&str; 2] = ["generated", "roundtripped"];
pub const PK_PROVS: [&str; 4] = ["generated", "roundtripped", "derived", "derived-from-roundtripped"];

impl<S: PS> KeyBundle<S> {
    pub fn new(xi: [u8; 32]) -> Result<KeyBundle<S>, PanicInfo> {
        guarded(|| {
            let (pk_gen, sk_gen) = S::keygen_seed(&xi);
            let pk_bytes = S::pk_bytes(&pk_gen);
            let sk_bytes = S::sk_bytes(&sk_gen);
            let pk_rt = S::pk_from(&pk_bytes).expect("generated pk must deserialise");
            let sk_rt = S::sk_from(&sk_bytes).expect("generated sk must deserialise");
            let pk_der = S::derive(&sk_gen);
            let pk_der_rt = S::derive(&sk_rt);
            KeyBundle { xi, pk_bytes, sk_bytes, pk_gen, sk_gen, pk_rt, sk_rt, pk_der, pk_der_rt }
        })
    }
    pub fn sk(&self, prov: usize) -> &S::Sk { if prov == 0 { &self.sk_gen } else { &self.sk_rt } }
    pub fn pk(&self, prov: usize) -> &S::Pk {
        match prov {
            0 => &self.pk_gen,
            1 => &self.pk_rt,
            2 => &self.pk_der,
            _ => &self.pk_der_rt,
        }
    }
}

/// Sign through the public API with a strict replaying RNG; returns (result, rng log ok?)
pub fn sign_replay<S: PS>(
    sk: &S::Sk, m: &[u8], ctx: &[u8], mode: Mode, rnd: &[u8; 32],
) -> Result<(Result<Vec<u8>, &'static str>, bool), PanicInfo> {
    guarded(|| {
        let mut script = rnd.to_vec();
        script.extend_from_slice(&[0x5A; 64]); // tail the library must never touch
        let mut rng = RecordingRng::strict(&script);
        let r = S::sign(sk, &mut rng, m, ctx, mode);
        let ok = rng.only_try_fill_32(1) && rng.pos == 32 && !rng.underrun;
        (r, ok)
    })
}

pub fn case_json(set: u32, mode: Mode, pk: &[u8], sk: Option<&[u8]>, m: &[u8], ctx: &[u8], rnd: Option<&[u8]>, sig: Option<&[u8]>) -> Value {
    json!({
        "set": set,
        "mode": mode.name(),
        "pk": hex(pk),
        "sk": sk.map(hex),
        "message": hex(m),
        "ctx": hex(ctx),
        "rnd": rnd.map(hex),
        "sig": sig.map(hex),
    })
}

pub fn mode_from_name(s: &str) -> Mode {
    *refimpl::MODES.iter().find(|m| m.name() == s).expect("mode name")
}
