//! Shared pieces: oracle gate, key provenance bundles, monitored calls.

use crate::guard::{guarded, panic_key, short_loc, PanicInfo};
use crate::props::StageOut;
use crate::rngs::RecordingRng;
use crate::sets::PS;
use crate::util::{hex, Acc};
use crate::Ctx;
use refimpl::Mode;
use serde_json::{json, Value};

/// Validate the reference; on failure the stage is inconclusive (never a violation).
pub fn oracle_gate(ctx: &Ctx, acc: &mut Acc) -> bool {
    match crate::oracle::validate(&ctx.fixtures, ctx.thorough()) {
        Ok(r) => {
            acc.count("oracle_acvp_keygen_vectors", r.keygen as u64);
            acc.count("oracle_acvp_siggen_vectors", r.siggen as u64);
            acc.count("oracle_acvp_sigver_vectors", r.sigver as u64);
            acc.count("oracle_ntt_vs_schoolbook", r.ntt_products as u64);
            true
        }
        Err(e) => {
            acc.inconclusive(format!("oracle self-validation failed: {e}"));
            false
        }
    }
}

pub fn oracle_stage(ctx: &Ctx) -> StageOut {
    let mut acc = Acc::new();
    let _ = oracle_gate(ctx, &mut acc);
    StageOut::new("oracle", "reference model vs ACVP vectors and schoolbook multiply", false, acc)
}

pub fn panic_violation(acc: &mut Acc, prop: &str, api: &str, class: &str, pi: &PanicInfo, replay: Value) {
    let loc = short_loc(&pi.location);
    acc.violation(
        &format!("{prop}|panic|{}|{api}|{class}", panic_key(pi)),
        format!("panic in {api} at {loc}: {} (also a C13 violation)", pi.message),
        replay,
    );
}

/// All the ways a key pair can reach the user.
pub struct KeyBundle<S: PS> {
    pub xi: [u8; 32],
    pub pk_bytes: Vec<u8>,
    pub sk_bytes: Vec<u8>,
    pub pk_gen: S::Pk,
    pub sk_gen: S::Sk,
    pub pk_rt: S::Pk,
    pub sk_rt: S::Sk,
    pub pk_der: S::Pk,
    pub pk_der_rt: S::Pk,
}

pub const SK_PROVS: [&str; 2] = ["generated", "roundtripped"];
pub const PK_PROVS: [&str; 4] = ["generated", "roundtripped", "derived", "derived-from-roundtripped"];

impl<S: PS> KeyBundle<S> {
    pub fn new(xi: [u8; 32]) -> Result<KeyBundle<S>, PanicInfo> {
        guarded(|| {
            let (pk_gen, sk_gen) = S::keygen_seed(&xi);
            let pk_bytes = S::pk_bytes(&pk_gen);
            let sk_bytes = S::sk_bytes(&sk_gen);
            let pk_rt = S::pk_from(&pk_bytes).expect("generated pk must deserialise");
            let sk_rt = S::sk_from(&sk_bytes).expect("generated sk must deserialise");
            let pk_der = S::derive(&sk_gen);
            let pk_der_rt = S::derive(&sk_rt);
            KeyBundle { xi, pk_bytes, sk_bytes, pk_gen, sk_gen, pk_rt, sk_rt, pk_der, pk_der_rt }
        })
    }
    pub fn sk(&self, prov: usize) -> &S::Sk { if prov == 0 { &self.sk_gen } else { &self.sk_rt } }
    pub fn pk(&self, prov: usize) -> &S::Pk {
        match prov {
            0 => &self.pk_gen,
            1 => &self.pk_rt,
            2 => &self.pk_der,
            _ => &self.pk_der_rt,
        }
    }
}

/// Sign through the public API with a strict replaying RNG; returns (result, rng log ok?)
pub fn sign_replay<S: PS>(
    sk: &S::Sk, m: &[u8], ctx: &[u8], mode: Mode, rnd: &[u8; 32],
) -> Result<(Result<Vec<u8>, &'static str>, bool), PanicInfo> {
    guarded(|| {
        let mut script = rnd.to_vec();
        script.extend_from_slice(&[0x5A; 64]); // tail the library must never touch
        let mut rng = RecordingRng::strict(&script);
        let r = S::sign(sk, &mut rng, m, ctx, mode);
        let ok = rng.only_try_fill_32(1) && rng.pos == 32 && !rng.underrun;
        (r, ok)
    })
}

pub fn case_json(set: u32, mode: Mode, pk: &[u8], sk: Option<&[u8]>, m: &[u8], ctx: &[u8], rnd: Option<&[u8]>, sig: Option<&[u8]>) -> Value {
    json!({
        "set": set,
        "mode": mode.name(),
        "pk": hex(pk),
        "sk": sk.map(hex),
        "message": hex(m),
        "ctx": hex(ctx),
        "rnd": rnd.map(hex),
        "sig": sig.map(hex),
    })
}

pub fn mode_from_name(s: &str) -> Mode {
    *refimpl::MODES.iter().find(|m| m.name() == s).expect("mode name")
}

/// developer aid: timings and iteration distributions (not a check)
pub fn bench_stage(ctx: &Ctx) -> StageOut {
    use crate::gen::{hostile_sk, SPat, T0Pat};
    use crate::util::Prng;
    let mut acc = Acc::new();
    for &set in &ctx.sets {
        let p = refimpl::params(set);
        let t0 = std::time::Instant::now();
        let mut g = Prng::new(ctx.seed);
        for _ in 0..200 {
            let _ = refimpl::keygen_internal(p, &g.arr32());
        }
        eprintln!("{}: reference keygen {:.3} ms", p.name, t0.elapsed().as_secs_f64() * 1000.0 / 200.0);
        for (sp, tp) in [(SPat::Random, T0Pat::PartialExtremes(30)), (SPat::Random, T0Pat::PartialExtremes(50)), (SPat::Random, T0Pat::PartialExtremes(70)), (SPat::Random, T0Pat::PartialExtremes(85))] {
            let res = crate::util::par_map(64, |i| {
                let mut g = Prng::derive(ctx.seed, "bench", i as u64 + u64::from(set) * 1000);
                let sk = hostile_sk(&mut g, p, sp, tp);
                refimpl::events_reset();
                let t = std::time::Instant::now();
                let out = refimpl::sign_internal_capped(p, &sk, b"bench", &g.arr32(), 20000);
                let e = refimpl::events_take();
                (e.sign_iterations, out.is_some(), t.elapsed().as_secs_f64())
            });
            let mut its: Vec<u64> = res.iter().map(|r| r.0).collect();
            its.sort_unstable();
            let fails = res.iter().filter(|r| !r.1).count();
            eprintln!("{} {sp:?}/{tp:?}: iterations min {} median {} p90 {} max {} capped {} ; max time {:.2}s", p.name, its[0], its[32], its[57], its[63], fails, res.iter().map(|r| r.2).fold(0.0, f64::max));
        }
    }
    acc.eval();
    StageOut::new("bench", "bench", false, acc)
}


/// Seeds whose reference key generation takes a rare path. The scan runs the instrumented
/// reference only (never the crate), so caching its result on disk cannot hide a change in /repo.
#[derive(Clone, Debug)]
pub struct RareSeed {
    pub xi: [u8; 32],
    pub tags: Vec<String>,
}

pub fn rare_keygen_seeds(ctx: &Ctx, p: &refimpl::Params, n_scan: usize) -> Vec<RareSeed> { rare_keygen_seeds_mode(ctx, p, n_scan, false) }

/// `ctest` = predict the events of the crate's constant-time test mode (samplers never reject)
pub fn rare_keygen_seeds_mode(ctx: &Ctx, p: &refimpl::Params, n_scan: usize, ctest: bool) -> Vec<RareSeed> {
    use crate::util::{par_map, unhex, Prng};
    let work = ctx.fixtures.parent().map_or_else(|| std::path::PathBuf::from("/verif"), |x| x.to_path_buf()).join("target").join("work");
    let _ = std::fs::create_dir_all(&work);
    let cache = work.join(format!("rare-keygen-v2{}-{}-{}-{}.json", if ctest { "-ctest" } else { "" }, p.set, ctx.seed, n_scan));
    if let Ok(text) = std::fs::read_to_string(&cache) {
        if let Ok(v) = serde_json::from_str::<Value>(&text) {
            if let Some(a) = v.as_array() {
                return a.iter().filter_map(|e| Some(RareSeed { xi: unhex(e["xi"].as_str()?).try_into().ok()?, tags: e["tags"].as_array()?.iter().filter_map(|t| t.as_str().map(String::from)).collect() })).collect();
            }
        }
    }
    let shards = 64usize;
    let found = par_map(shards, |sh| {
        let mut g = Prng::derive(ctx.seed, &format!("rare-keygen-{}", p.name), sh as u64);
        let mut out = Vec::new();
        for _ in 0..n_scan / shards {
            let xi = g.arr32();
            refimpl::events_reset();
            refimpl::set_ctest(ctest);
            let _ = refimpl::keygen_internal(p, &xi);
            refimpl::set_ctest(false);
            let e = refimpl::events_take();
            let mut tags = Vec::new();
            if e.t_wrap_high > 0 { tags.push("t-wrap-high".to_string()); }
            if e.t_wrap_low > 0 { tags.push("t-wrap-low".to_string()); }
            if e.three_byte_eq_q > 0 { tags.push("three-byte-eq-q".to_string()); }
            if e.three_byte_eq_qm1 > 0 { tags.push("three-byte-eq-q-1".to_string()); }
            if e.three_byte_eq_qp1 > 0 { tags.push("three-byte-eq-q+1".to_string()); }
            if !tags.is_empty() {
                out.push(RareSeed { xi, tags });
            }
        }
        out
    });
    let mut all: Vec<RareSeed> = found.into_iter().flatten().collect();
    // second, much cheaper scan (SHAKE only) for sampler events: three consecutive rejections inside one RejNTTPoly call (about 1 key in 10^5), a RejBoundedPoly call that needs
    // more than two SHAKE256 blocks (272 bytes; eta = 4 only, about 1 key in 13000) or a RejNTTPoly call
    // that needs more than five SHAKE128 blocks (840 bytes)
    let n_cheap = n_scan * 16;
    let cheap = par_map(shards, |sh| {
        let mut g = Prng::derive(ctx.seed, &format!("rare-sampler-{}", p.name), sh as u64);
        let mut out = Vec::new();
        for _ in 0..n_cheap / shards {
            let xi = g.arr32();
            let seed = refimpl::h(&[&xi, &[p.k as u8], &[p.l as u8]], 128);
            refimpl::events_reset();
            refimpl::set_ctest(ctest);
            let _ = refimpl::expand_s(p, &seed[32..96]);
            let _ = refimpl::expand_a(p, &seed[..32]);
            refimpl::set_ctest(false);
            let e = refimpl::events_take();
            let mut tags = Vec::new();
            if e.rbp_max_bytes > 272 {
                tags.push("rbp-over-2-blocks".to_string());
            }
            if e.rnp_max_reject_run >= 3 {
                tags.push("rnp-reject-run-3".to_string());
            }
            if e.rnp_max_bytes > 840 {
                tags.push("rnp-over-5-blocks".to_string());
            }
            if !tags.is_empty() {
                out.push(RareSeed { xi, tags });
            }
        }
        out
    });
    all.extend(cheap.into_iter().flatten());
    // keep at most 24 per tag (1000 for wrap events)
    let mut per_tag: std::collections::HashMap<String, usize> = std::collections::HashMap::new();
    all.retain(|r| {
        let mut keep = false;
        for t in &r.tags {
            let c = per_tag.entry(t.clone()).or_insert(0);
            // wrap events are position-specific (a slip may concern one coefficient index only): keep them all
            let cap = if t.starts_with("t-wrap") { 1000 } else { 24 };
            if *c < cap {
                *c += 1;
                keep = true;
            }
        }
        keep
    });
    let v: Vec<Value> = all.iter().map(|r| json!({"xi": hex(&r.xi), "tags": r.tags})).collect();
    let _ = std::fs::write(&cache, serde_json::to_string(&v).unwrap());
    all
}


/// `rareseeds` stage: print rare key-generation seeds (optionally for constant-time test mode) as JSON
pub fn rareseeds_stage(ctx: &Ctx) -> StageOut {
    let mut acc = Acc::new();
    let n = ctx.opt_u64("n", 24_000) as usize;
    let ctest = ctx.opt_u64("ctest", 0) != 0;
    let mut out = serde_json::Map::new();
    for &set in &ctx.sets {
        let p = refimpl::params(set);
        let seeds = rare_keygen_seeds_mode(ctx, p, n, ctest);
        acc.evals(n as u64);
        let wraps: Vec<Value> = seeds.iter().filter(|r| r.tags.iter().any(|t| t.starts_with("t-wrap"))).map(|r| json!({"xi": hex(&r.xi), "tags": r.tags})).collect();
        for _ in 0..wraps.len() {
            acc.distinct_enumerated += 1;
        }
        let _ = out.insert(set.to_string(), Value::Array(wraps));
    }
    acc.sample(Value::Object(out));
    StageOut::new("rareseeds", "instrumented-reference scan for rare key-generation events", false, acc)
}


/// c~ values with extreme SampleInBall consumption (fixtures/sib, found by brute force; see props/sib.rs)
pub fn sib_fixtures(ctx: &Ctx, set: u32) -> Vec<(Vec<u8>, u64)> {
    let dir = ctx.fixtures.join("sib");
    let Ok(rd) = std::fs::read_dir(&dir) else { return vec![] };
    let mut out = Vec::new();
    let mut paths: Vec<_> = rd.flatten().map(|e| e.path()).collect();
    paths.sort();
    for path in paths {
        let Ok(text) = std::fs::read_to_string(&path) else { continue };
        let Ok(v) = serde_json::from_str::<Value>(&text) else { continue };
        if v["set"].as_u64() == Some(u64::from(set)) {
            if let Some(h) = v["c_tilde"].as_str() {
                out.push((crate::util::unhex(h), v["index_bytes"].as_u64().unwrap_or(0)));
            }
        }
    }
    out
}

/// A zero-filled buffer that is never touched unless the code under test reads it (calloc hands out
/// untouched zero pages, so 4 GiB cost nothing as long as the length check comes first).
pub struct ZeroBuf {
    ptr: *mut u8,
    len: usize,
}

impl ZeroBuf {
    pub fn new(len: usize) -> Option<ZeroBuf> {
        let layout = std::alloc::Layout::from_size_align(len, 4096).ok()?;
        // SAFETY: layout has a non-zero size; a null return is handled.
        let ptr = unsafe { std::alloc::alloc_zeroed(layout) };
        if ptr.is_null() { None } else { Some(ZeroBuf { ptr, len }) }
    }
    pub fn get(&self, n: usize) -> &[u8] {
        assert!(n <= self.len);
        // SAFETY: ptr points to len zero-initialised bytes owned by self and never written.
        unsafe { std::slice::from_raw_parts(self.ptr, n) }
    }
}

impl Drop for ZeroBuf {
    fn drop(&mut self) {
        // SAFETY: allocated in new() with this very layout.
        unsafe { std::alloc::dealloc(self.ptr, std::alloc::Layout::from_size_align(self.len, 4096).unwrap()) }
    }
}


/// A polynomial with coefficients in [lo, hi] that drives output slot 0 of the crate's forward NTT (real
/// hook, whatever its internal representation) as far as it will go in direction `sign`.
/// Slot 0 is input 0 plus one Montgomery product per layer, and the product of layer `len` depends only on
/// the inputs whose lowest set index bit is `len` (Algorithm 41's butterfly structure): the eight index
/// sets are disjoint, so each is optimised on its own by coordinate ascent (every value of the range, or
/// a seeded stride over it, for one coordinate at a time, two passes), all other inputs held at zero.
/// Returns the polynomial and the slot-0 value of the combination.
pub fn ntt_slot0_maximiser(seed: u64, lo: i64, hi: i64, sign: i64) -> (refimpl::Poly, i64) {
    use fips204::verif_hooks as hk;
    let eval = |z: &[i32; 256]| -> i64 { guarded(|| i64::from(hk::ntt::<1>(&[*z])[0][0])).unwrap_or(0) };
    let mut g = crate::util::Prng::derive(seed, "ntt-slot0-max", (sign & 1) as u64);
    let span = hi - lo + 1;
    let stride = (span / 1024).max(1);
    let mut out = [0i32; 256];
    out[0] = if sign > 0 { hi as i32 } else { lo as i32 };
    for len in [128usize, 64, 32, 16, 8, 4, 2, 1] {
        let idx: Vec<usize> = (1usize..256).filter(|&j| (j & j.wrapping_neg()) == len).collect();
        let mut z = [0i32; 256];
        let mut best = sign * eval(&z);
        // few coordinates suffice: the product is a sawtooth in each of them; use up to 6 per layer
        let use_idx: Vec<usize> = idx.iter().copied().take(6).collect();
        for _pass in 0..2 {
            for &j in &use_idx {
                let keep = z[j];
                let mut bv = keep;
                let mut v = lo + g.below(stride as u64) as i64;
                while v <= hi {
                    z[j] = v as i32;
                    let val = sign * eval(&z);
                    if val > best {
                        best = val;
                        bv = v as i32;
                    }
                    v += stride;
                }
                z[j] = bv;
            }
        }
        for &j in &use_idx {
            out[j] = z[j];
        }
    }
    let total = eval(&out);
    (crate::sets::to_i64(&out), total)
}
