//! C12 — RNG failure is reported, and all drawn randomness is used (fault enumeration).

use crate::for_sets;
use crate::guard::guarded;
use crate::props::StageOut;
use crate::rngs::{FaultKind, FaultRng, RecordingRng, FAULT_CODES, INFALLIBLE_MARKER};
use crate::sets::PS;
use crate::util::{digest64, hex, par_map, Acc, Prng};
use crate::Ctx;
use refimpl::{Mode, MODES};
use serde_json::json;

const RULE: &str = "fault enumeration: entry points {try_keygen_with_rng (module fn), KG::try_keygen_with_rng, try_sign_with_rng, try_hash_sign_with_rng x3 PH, dudect_keygen_sign_with_rng (two requests)} x 3 sets x failing request index {0,1,2} x fault kind {error before write, error after 1/16/31 real bytes with a poisoned tail, error after a full write} x reported error {rand_core custom code, internal code, OS errnos 1, 4 (EINTR), 5, 11 (EAGAIN), 35, 38, 2^31-1, 2^32-1; on the harness flavour built with rand_core/std also a boxed std error without any code}: when the fault fires the call must return Err without unwinding; when it does not fire the call must return Ok and a strict RNG (whose infallible methods panic) must have logged only try_fill_bytes(32). Influence: for each of the 256 bit positions of each draw, flipping it must change the public-key bytes, the private-key bytes and the signature (each mode). Exhaustion: ML-DSA-44 signing calls with accepted extreme-t0 keys (48 / 384) make exactly one RNG request whether they succeed or run out of loop iterations, and the exhausted ones return Err after one request also when a second request would fail. OS RNG: repeated try_keygen/try_sign/try_hash_sign calls on identical inputs give pairwise distinct outputs that verify. Non-trivial = distinct (entry point, set, fault index, fault kind) cells in which the fault actually fired, plus distinct influence probes.";

pub fn run(ctx: &Ctx) -> StageOut {
    let mut acc = Acc::new();
    for a in for_sets!(ctx.sets, run_set(ctx)) {
        acc.merge(a);
    }
    StageOut::new("C12", RULE, true, acc)
}

#[derive(Clone, Copy, Debug, PartialEq, Eq)]
enum Entry {
    KeygenFn,
    KeygenTrait,
    Sign(Mode),
    Dudect,
}

impl Entry {
    fn name(self) -> String {
        match self {
            Entry::KeygenFn => "try_keygen_with_rng".into(),
            Entry::KeygenTrait => "KG::try_keygen_with_rng".into(),
            Entry::Sign(Mode::Pure) => "try_sign_with_rng".into(),
            Entry::Sign(m) => format!("try_hash_sign_with_rng[{}]", m.name()),
            Entry::Dudect => "dudect_keygen_sign_with_rng".into(),
        }
    }
    fn requests(self) -> usize { if self == Entry::Dudect { 2 } else { 1 } }
}

/// Call an entry point with `rng`; Ok(bytes) on success (all output bytes concatenated).
fn call<S: PS, R: rand_core::CryptoRngCore>(e: Entry, sk: &S::Sk, rng: &mut R, m: &[u8], cx: &[u8]) -> Result<Vec<u8>, &'static str> {
    match e {
        Entry::KeygenFn => S::keygen_rng(rng).map(|(pk, sk)| [S::pk_bytes(&pk), S::sk_bytes(&sk)].concat()),
        Entry::KeygenTrait => S::keygen_rng_trait(rng).map(|(pk, sk)| [S::pk_bytes(&pk), S::sk_bytes(&sk)].concat()),
        Entry::Sign(mode) => S::sign(sk, rng, m, cx, mode),
        Entry::Dudect => S::dudect(rng, m),
    }
}

fn run_set<S: PS>(ctx: &Ctx) -> Acc {
    let p = S::p();
    let mut acc = Acc::new();
    let mut g = Prng::derive(ctx.seed, &format!("c12-{}", p.name), 0);
    let sk_xi = g.arr32();
    let (_, sk) = S::keygen_seed(&sk_xi);
    let entries: Vec<Entry> = vec![Entry::KeygenFn, Entry::KeygenTrait, Entry::Sign(Mode::Pure), Entry::Sign(Mode::Sha256), Entry::Sign(Mode::Sha512), Entry::Sign(Mode::Shake128), Entry::Dudect].into_iter().filter(|e| *e != Entry::Dudect || S::HAS_DUDECT).collect();
    let kinds = [FaultKind::Before, FaultKind::AfterPartial(1), FaultKind::AfterPartial(16), FaultKind::AfterPartial(31), FaultKind::AfterFull];
    let m = g.bytes(20);
    let cx = g.bytes(5);

    // ---- fault matrix -----------------------------------------------------------------------------
    for &e in &entries {
        for fail_at in 0..3usize {
            for kind in kinds {
              for code in FAULT_CODES {
                acc.eval();
                let script = g.bytes(96);
                let replay = json!({"kind":"c12-fault","set":S::SET,"entry":e.name(),"fail_at":fail_at,"fault":format!("{kind:?}"),"code":code,"script":hex(&script)});
                let r = guarded(|| {
                    let mut rng = FaultRng::new(&script, fail_at, kind).with_code(code);
                    let out = call::<S, _>(e, &sk, &mut rng, &m, &cx);
                    (out.is_ok(), rng.fired, rng.requests)
                });
                let cell = if code == FAULT_CODES[0] { format!("{}|{}|fail_at={fail_at}|{kind:?}", p.name, e.name()) } else { format!("{}|{}|fail_at={fail_at}|{kind:?}|code={code}", p.name, e.name()) };
                match r {
                    Err(pi) if e == Entry::Dudect && !pi.message.contains(INFALLIBLE_MARKER) && pi.location.contains("/src/") && cfg!(debug_assertions) && pi.message.starts_with("Alg ") => {
                        // a range self-check of the constant-time test path firing on unrejected data: not an RNG
                        // event; it is C13's business (known finding F5) and is decided there, not here
                        acc.count("dudect_selfcheck_panics_out_of_scope_see_C13", 1);
                    }
                    Err(pi) => {
                        let what = if pi.message.contains(INFALLIBLE_MARKER) { "randomness requested through an infallible RngCore method" } else { "panic under RNG fault" };
                        acc.violation(&format!("C12|panic|{cell}"), format!("{what}: {} at {}", pi.message, crate::guard::short_loc(&pi.location)), replay);
                    }
                    Ok((is_ok, fired, requests)) => {
                        if fired && is_ok {
                            acc.violation(&format!("C12|fault-ignored|{cell}"), format!("request {fail_at} failed ({kind:?}, error code {code}) but {} returned Ok", e.name()), replay);
                        } else if !fired && !is_ok {
                            acc.violation(&format!("C12|spurious-error|{cell}"), format!("no fault fired (requests made: {requests}) but {} returned Err", e.name()), replay);
                        } else if fired {
                            acc.count("faults_fired_and_reported", 1);
                            acc.nontrivial(digest64(&[cell.as_bytes()]));
                        } else {
                            acc.count("fault_not_reached_ok", 1);
                            if fail_at < e.requests() {
                                acc.violation(&format!("C12|request-missing|{cell}"), format!("{} made only {requests} requests; expected to reach request {fail_at}", e.name()), replay);
                            }
                        }
                    }
                }
              }
            }
        }
        // strict, non-faulting: only try_fill_bytes(32), exactly `requests` of them
        for attempt in 0..12 {
            acc.eval();
            let script = g.bytes(96);
            let r = guarded(|| {
                let mut rng = RecordingRng::strict(&script);
                let out = call::<S, _>(e, &sk, &mut rng, &m, &cx);
                (out.is_ok(), rng.log.clone(), rng.pos)
            });
            let replay = json!({"kind":"c12-strict","set":S::SET,"entry":e.name(),"script":hex(&script)});
            match r {
                Err(pi) if e == Entry::Dudect && cfg!(debug_assertions) && pi.message.starts_with("Alg ") && !pi.message.contains(INFALLIBLE_MARKER) => {
                    // range self-check of the constant-time test path (C13's known finding F5): not an RNG event; draw again
                    acc.count("dudect_selfcheck_panics_out_of_scope_see_C13", 1);
                    if attempt == 11 {
                        acc.inconclusive("dudect entry point: 12 consecutive draws tripped the CTEST range self-check".into());
                    }
                    continue;
                }
                Err(pi) => acc.violation(&format!("C12|strict-panic|{}|{}", p.name, e.name()), format!("panic with a healthy strict RNG: {}", pi.message), replay),
                Ok((ok, log, pos)) => {
                    let want = e.requests();
                    if !ok || log.len() != want || !log.iter().all(|c| *c == crate::rngs::Call::TryFill(32)) || pos != 32 * want {
                        acc.violation(&format!("C12|rng-log|{}|{}", p.name, e.name()), format!("expected {want} x try_fill_bytes(32), observed {log:?} (ok={ok})"), replay);
                    } else {
                        acc.count("strict_logs_ok", 1);
                    }
                }
            }
            break;
        }
    }
    acc.sample(json!({"set": p.name, "fault_matrix": {"entries": entries.iter().map(|e| e.name()).collect::<Vec<_>>(), "fail_at": [0,1,2], "kinds": kinds.iter().map(|k| format!("{k:?}")).collect::<Vec<_>>()}, "example_cell": {"entry": "try_sign_with_rng", "fail_at": 0, "fault": "AfterPartial(16): 16 real bytes, 16 x 0xEE, then Err", "expected": "Err, no unwind"}}));

    // ---- influence of every bit of every draw ---------------------------------------------------
    let n_base = ctx.budget(1, 16) as usize;
    let jobs: Vec<(usize, usize)> = (0..n_base).flat_map(|b| (0..entries.len()).map(move |e| (b, e))).collect();
    let accs = par_map(jobs.len(), |j| {
        // each worker has its own key object: key types need not be Sync
        let (_, sk) = S::keygen_seed(&sk_xi);
        let (b, ei) = jobs[j];
        let e = entries[ei];
        let mut a = Acc::new();
        let mut g = Prng::derive(ctx.seed, &format!("c12-infl-{}", p.name), (b * 16 + ei) as u64);
        let base = g.bytes(32 * e.requests());
        // Some(Some(out)) ok, Some(None) returned Err, None = self-check panic of the CTEST path (C13's business)
        let run = |script: &[u8]| -> Option<Option<Vec<u8>>> {
            match guarded(|| {
                let mut rng = RecordingRng::new(script);
                call::<S, _>(e, &sk, &mut rng, &m, &cx).ok()
            }) {
                Ok(v) => Some(v),
                Err(pi) if e == Entry::Dudect && cfg!(debug_assertions) && pi.message.starts_with("Alg ") => None,
                Err(_) => Some(None),
            }
        };
        let mut base = base;
        let mut out0 = run(&base);
        for _ in 0..20 {
            if matches!(out0, Some(Some(_))) {
                break;
            }
            base = g.bytes(32 * e.requests());
            out0 = run(&base);
        }
        let Some(Some(out0)) = out0 else {
            a.inconclusive(format!("{} failed on the base draw", e.name()));
            return a;
        };
        for bit in 0..(8 * base.len()) {
            a.eval();
            let mut s = base.clone();
            s[bit / 8] ^= 1 << (bit % 8);
            let replay = json!({"kind":"c12-influence","set":S::SET,"entry":e.name(),"draw":hex(&base),"bit":bit});
            match run(&s) {
                None => a.count("dudect_selfcheck_panics_out_of_scope_see_C13", 1),
                Some(None) => a.violation(&format!("C12|influence-call-failed|{}|{}", p.name, e.name()), "call failed on a flipped draw".into(), replay),
                Some(Some(out1)) => {
                    let differs = match e {
                        Entry::KeygenFn | Entry::KeygenTrait => {
                            // both the pk part and the sk part must change
                            out1[..p.pk_len] != out0[..p.pk_len] && out1[p.pk_len..] != out0[p.pk_len..]
                        }
                        _ => out1 != out0,
                    };
                    if !differs {
                        a.violation(&format!("C12|bit-without-influence|{}|{}", p.name, e.name()), format!("flipping bit {bit} of the {}-byte draw does not change the output of {}", base.len(), e.name()), replay);
                    } else {
                        a.count("influence_bits_confirmed", 1);
                        a.nontrivial(digest64(&[&[S::SET as u8, ei as u8, b as u8], &(bit as u64).to_le_bytes()]));
                    }
                }
            }
        }
        a
    });
    for a in accs {
        acc.merge(a);
    }

    // ---- OS RNG freshness ------------------------------------------------------------------------
    let n_os = ctx.budget(6, 40) as usize;
    let mut outs: Vec<Vec<u8>> = Vec::new();
    for i in 0..n_os {
        acc.eval();
        let r = guarded(|| {
            let (pk, sk2) = if i % 2 == 0 { S::keygen_os() } else { S::keygen_os_trait() }?;
            let sig = S::sign_os(&sk2, &m, &cx, MODES[i % 4])?;
            let ok = S::verify(&pk, &m, &sig, &cx, MODES[i % 4]);
            let sig_fixed_key = S::sign_os(&sk, &m, &cx, MODES[i % 4])?;
            Ok::<_, &'static str>((S::pk_bytes(&pk), sig, ok, sig_fixed_key))
        });
        match r {
            Ok(Ok((pkb, sig, ok, sig_fixed))) => {
                if !ok {
                    acc.violation(&format!("C12|os-rng-sig-invalid|{}", p.name), "signature from try_sign()/try_hash_sign() does not verify".into(), json!({"kind":"c12-os","set":S::SET}));
                }
                outs.push(pkb);
                outs.push(sig);
                outs.push(sig_fixed);
            }
            Ok(Err(e)) => acc.inconclusive(format!("OS RNG entry point returned Err({e})")),
            Err(pi) => acc.violation(&format!("C12|os-rng-panic|{}", p.name), format!("panic in OS-RNG entry point: {}", pi.message), json!({"kind":"c12-os","set":S::SET})),
        }
    }
    let mut seen = std::collections::HashSet::new();
    for o in &outs {
        if !seen.insert(digest64(&[o])) {
            acc.violation(&format!("C12|os-rng-repeat|{}", p.name), "two OS-RNG calls produced identical keys or identical signatures for the same key and message".into(), json!({"kind":"c12-os","set":S::SET}));
        }
    }
    acc.count("os_rng_outputs_pairwise_distinct", seen.len() as u64);

    // ---- signing that runs out of rejection-loop iterations (ML-DSA-44, accepted keys with extreme t0) --
    // Whatever the outcome, one signing call makes exactly one RNG request; when the loop is exhausted the
    // call returns Err without asking the generator again, so a generator that would fail on a second
    // request is never reached. (A retry with fresh randomness on exhaustion would show a second request,
    // and with a failing second request possibly a signature made from a half-written buffer.)
    if S::SET == 44 && !ctx.checked_build() {
        let n = ctx.budget(48, 384) as usize;
        // batches are repeated (new keys) until at least one call ran out of iterations (about 5 % do)
        for batch in 0..10u64 {
        let accs = par_map(n, |i| {
            let mut a = Acc::new();
            let mut g = Prng::derive(ctx.seed, &format!("c12-exhaust-{batch}"), i as u64);
            let sk_b = crate::gen::hostile_sk(&mut g, p, crate::gen::SPat::Random, crate::gen::T0Pat::RandomExtremes);
            let Ok(Ok(hsk)) = guarded(|| S::sk_from(&sk_b)) else { return a };
            let m = g.bytes(12);
            // every other call in pure mode, the others rotate over the pre-hash functions
            let mode = if i % 2 == 0 { Mode::Pure } else { MODES[1 + (i / 2) % 3] };
            let script = g.bytes(96);
            a.eval();
            let replay = json!({"kind":"c12-exhaust","set":S::SET,"sk":hex(&sk_b),"message":hex(&m),"mode":mode.name(),"script":hex(&script)});
            let r1 = guarded(|| {
                let mut rng = RecordingRng::strict(&script);
                let out = S::sign(&hsk, &mut rng, &m, &[], mode);
                (out.is_ok(), rng.log.clone(), rng.pos)
            });
            let Ok((ok, log, pos)) = r1 else {
                a.violation(&format!("C12|panic|{}|sign-rejection-heavy", p.name), "panic while signing with a rejection-heavy key (see C13)".into(), replay);
                return a;
            };
            if log.len() != 1 || log[0] != crate::rngs::Call::TryFill(32) || pos != 32 {
                a.violation(&format!("C12|rng-log|{}|sign-rejection-heavy|ok={ok}", p.name), format!("a signing call (result ok={ok}) made RNG requests {log:?}; expected exactly one try_fill_bytes(32)"), replay);
                return a;
            }
            a.count(if ok { "rejection_heavy_sign_ok_one_request" } else { "exhausted_sign_err_one_request" }, 1);
            if !ok {
                a.count(if mode == Mode::Pure { "exhausted_pure" } else { "exhausted_prehash" }, 1);
            }
            a.nontrivial(digest64(&[b"exh", &sk_b, &m]));
            if !ok {
                // the same call with a generator whose SECOND request fails after a partial write
                for kind in [FaultKind::AfterPartial(16), FaultKind::Before] {
                    a.eval();
                    let r2 = guarded(|| {
                        let mut rng = FaultRng::new(&script, 1, kind).with_code(4);
                        let out = S::sign(&hsk, &mut rng, &m, &[], mode);
                        (out.is_ok(), rng.fired, rng.requests)
                    });
                    match r2 {
                        Ok((false, false, 1)) => {
                            a.count("exhausted_sign_second_request_never_made", 1);
                            a.nontrivial(digest64(&[b"exh2", &sk_b, &m, format!("{kind:?}").as_bytes()]));
                        }
                        Ok((is_ok, fired, requests)) => a.violation(&format!("C12|fault-ignored|{}|sign-exhausted|{kind:?}", p.name), format!("loop-exhausting signing call: ok={is_ok}, requests={requests}, failing second request reached={fired}; expected Err after exactly one request"), replay.clone()),
                        Err(pi) => a.violation(&format!("C12|panic|{}|sign-exhausted", p.name), format!("panic: {}", pi.message), replay.clone()),
                    }
                }
            }
            a
        });
        for a in accs {
            acc.merge(a);
        }
        if (acc.counters.contains_key("exhausted_pure") && acc.counters.contains_key("exhausted_prehash")) || !acc.violations.is_empty() {
            break;
        }
        }
        if !(acc.counters.contains_key("exhausted_pure") && acc.counters.contains_key("exhausted_prehash")) && acc.violations.is_empty() {
            acc.inconclusive("the rejection-heavy batches did not produce a loop-exhausting call in both pure and pre-hash mode (expected a few percent of calls)".into());
        }
    }
    acc
}

/// `c12os`: exactly N calls of each OS-RNG entry point, nothing else; run under strace by the driver.
pub fn run_os_calls(ctx: &Ctx) -> StageOut {
    let mut acc = Acc::new();
    let n = ctx.opt_u64("calls", 5) as usize;
    fn go<S: PS>(n: usize, acc: &mut Acc) {
        let (_, sk) = S::keygen_seed(&[3u8; 32]);
        for i in 0..n {
            let _ = S::keygen_os().map(|_| acc.count("os_calls", 1));
            let _ = S::keygen_os_trait().map(|_| acc.count("os_calls", 1));
            let _ = S::sign_os(&sk, b"m", b"", Mode::Pure).map(|_| acc.count("os_calls", 1));
            let _ = S::sign_os(&sk, b"m", b"", MODES[1 + i % 3]).map(|_| acc.count("os_calls", 1));
            acc.evals(4);
        }
    }
    for s in &ctx.sets {
        match *s {
            44 => go::<crate::sets::S44>(n, &mut acc),
            65 => go::<crate::sets::S65>(n, &mut acc),
            _ => go::<crate::sets::S87>(n, &mut acc),
        }
    }
    StageOut::new("C12", "OS-RNG call loop for the getrandom syscall monitor", false, acc)
}
