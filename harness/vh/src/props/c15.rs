//! C15 — coefficient arithmetic is exact on its whole domain (exhaustive sweeps through the hooks).

use crate::guard::guarded;
use crate::props::StageOut;
use crate::util::{par_map, Acc, Prng};
use crate::Ctx;
use fips204::verif_hooks as hk;
use serde_json::json;

const Q: i64 = 8_380_417;
const D: u32 = 13;
const G2_44: i64 = (Q - 1) / 88;
const G2_65: i64 = (Q - 1) / 32;
const PRE32: i64 = 2_143_289_344; // documented precondition of the 32-bit reductions
const PRE64: i64 = 67_058_539; // documented precondition of partial_reduce64: |a| < PRE64 << 32

const RULE: &str = "every function is evaluated through its verif_hooks wrapper and compared with a big-integer definition (i64/i128 rem_euclid): Power2Round, Decompose/HighBits/LowBits and UseHint on every r in [0,q) x both gamma2 x h in {0,1}; Decompose also on i32 inputs in the documented precondition range against r mod q; MakeHint on every r in (-q,q) x z = q - ct0 for ct0 in {0, +-1, +-(gamma2-1), +-gamma2} plus random caller-shaped pairs; center_mod (mod+-), partial_reduce32, full_reduce32 on the i32 precondition range (congruence and output range); mont_reduce on all 2^32 low words x boundary and seeded high words; partial_reduce64 on every x*2^32 with |x| < 67058539; CoeffFromThreeBytes on all 2^24 inputs (both CTEST values); CoeffFromHalfByte on 16 x eta in {2,4} x CTEST; all 256 zeta table entries against modpow; bit_length on 1..2^24, infinity_norm and is_in_range on seeded vectors with planted extremes. thorough = every point of every domain (exhaustive); quick = every 2^23/2^24-point domain in full, the 2^32 domains at a seeded stride plus +-4096 windows around every multiple of q near the range ends, 0, 2*gamma2 multiples and 2^d. Distinct cases are counted by enumeration index (each point of a sweep is visited once).";

#[inline]
fn modq(x: i64) -> i64 { x.rem_euclid(Q) }
#[inline]
fn mod_pm(m: i64, a: i64) -> i64 {
    let r = m.rem_euclid(a);
    if 2 * r > a { r - a } else { r }
}
#[inline]
fn o_power2round(r: i64) -> (i64, i64) {
    let rp = modq(r);
    let r0 = mod_pm(rp, 1 << D);
    ((rp - r0) >> D, r0)
}
#[inline]
fn o_decompose(g2: i64, r: i64) -> (i64, i64) {
    let rp = modq(r);
    let mut r0 = mod_pm(rp, 2 * g2);
    if rp - r0 == Q - 1 {
        r0 -= 1;
        (0, r0)
    } else {
        ((rp - r0) / (2 * g2), r0)
    }
}
#[inline]
fn o_use_hint(g2: i64, h: i64, r: i64) -> i64 {
    let m = (Q - 1) / (2 * g2);
    let (r1, r0) = o_decompose(g2, r);
    if h == 1 && r0 > 0 {
        return (r1 + 1).rem_euclid(m);
    }
    if h == 1 && r0 <= 0 {
        return (r1 - 1).rem_euclid(m);
    }
    r1
}
#[inline]
fn o_make_hint(g2: i64, z: i64, r: i64) -> bool { o_decompose(g2, r).0 != o_decompose(g2, r + z).0 }

struct Sweep<'a> {
    acc: &'a mut Acc,
    checked: bool,
}

impl Sweep<'_> {
    /// Evaluate `f` on lo..=hi with the given stride (offset by `phase`), in parallel. `f` returns
    /// Some(description) on a mismatch.
    fn run<F: Fn(i64) -> Option<String> + Sync>(&mut self, name: &str, lo: i64, hi: i64, stride: i64, phase: i64, f: F) {
        let total = hi - lo + 1;
        let chunks = 1024i64.min(total.max(1));
        let res = par_map(chunks as usize, |c| {
            let a = lo + (c as i64) * total / chunks;
            let b = lo + (c as i64 + 1) * total / chunks; // exclusive
            let mut n = 0u64;
            let mut fails: Vec<(i64, String)> = Vec::new();
            // align to stride grid
            let mut x = a + (phase - a).rem_euclid(stride);
            let r = guarded(|| {
                while x < b {
                    n += 1;
                    if let Some(why) = f(x) {
                        if fails.len() < 2 {
                            fails.push((x, why));
                        }
                    }
                    x += stride;
                }
            });
            let pan = r.err().map(|pi| (x, format!("panic: {} at {}", pi.message, crate::guard::short_loc(&pi.location))));
            (n, fails, pan)
        });
        let mut n_total = 0u64;
        for (n, fails, pan) in res {
            n_total += n;
            for (x, why) in fails {
                self.acc.violation(&format!("C15|{name}|mismatch"), format!("{name}({x}): {why}"), json!({"kind":"c15","fn":name,"input":x}));
            }
            if let Some((x, why)) = pan {
                self.acc.violation(&format!("C15|{name}|panic"), format!("{name}({x}): {why}"), json!({"kind":"c15","fn":name,"input":x}));
            }
        }
        self.acc.evals(n_total);
        self.acc.distinct_enumerated += n_total;
        self.acc.count(&format!("points_{name}"), n_total);
        let _ = self.checked;
    }
}

fn windows32() -> Vec<(i64, i64)> {
    // +-4096 around: 0, every multiple of q close to the precondition ends, a spread of multiples of
    // q, 2^22/2^23 rounding points of partial_reduce32, and the range ends themselves.
    let mut centres: Vec<i64> = vec![0, PRE32 - 1, -(PRE32 - 1), 1 << 22, -(1 << 22), 1 << 23, -(1 << 23)];
    for k in [1i64, 2, 3, 127, 128, 129, 254, 255] {
        centres.push(k * Q);
        centres.push(-k * Q);
        centres.push(k * Q + Q / 2);
        centres.push(-k * Q - Q / 2);
        centres.push((k << 23) - (1 << 22));
        centres.push(-(k << 23) + (1 << 22));
    }
    centres.into_iter().map(|c| ((c - 4096).max(-(PRE32 - 1)), (c + 4096).min(PRE32 - 1))).collect()
}

pub fn run(ctx: &Ctx) -> StageOut {
    let mut acc = Acc::new();
    let thorough = ctx.thorough();
    let checked = ctx.checked_build();
    // the checked build runs strided subsets (its asserts are the extra monitor), never the 2^32 sweeps
    let full32 = thorough && !checked;
    let mut g = Prng::derive(ctx.seed, "c15", 0);
    let stride32: i64 = if checked { 8191 + (g.below(64) as i64) * 2 } else { 1021 + (g.below(64) as i64) * 2 };
    let phase = g.below(stride32 as u64) as i64;

    // local oracles agree with the reference model's definitions (single source of the spec)
    for _ in 0..20_000 {
        let r = g.range(-3 * Q, 3 * Q);
        for g2 in [G2_44, G2_65] {
            assert_eq!(o_decompose(g2, r), refimpl::decompose(g2, r));
            let h = g.below(2) as i64;
            assert_eq!(o_use_hint(g2, h, r), refimpl::use_hint(g2, h, r));
            let z = g.range(0, Q - 1);
            assert_eq!(o_make_hint(g2, z, r), refimpl::make_hint(g2, z, r));
        }
        assert_eq!(o_power2round(r), refimpl::power2round(r));
        assert_eq!(mod_pm(r, Q), refimpl::mod_pm(r, Q));
    }
    let _ = refimpl::events_take();

    let mut sw = Sweep { acc: &mut acc, checked };
    let s23 = if checked { 7 } else { 1 }; // checked build: every 7th point of the 2^23 domains

    // ---- Power2Round: every r in [0, q), 256 at a time through the vector hook --------------------
    sw.run("power2round", 0, (Q - 1) / 256, s23, 0, |blk| {
        let base = blk * 256;
        let inp: [i32; 256] = core::array::from_fn(|i| ((base + i as i64).min(Q - 1)) as i32);
        let (r1, r0) = hk::power2round::<1>(&[inp]);
        for i in 0..256 {
            let want = o_power2round(i64::from(inp[i]));
            if (i64::from(r1[0][i]), i64::from(r0[0][i])) != want {
                return Some(format!("r={} got ({}, {}) want {:?}", inp[i], r1[0][i], r0[0][i], want));
            }
        }
        None
    });

    // ---- Decompose / HighBits / LowBits / UseHint on Z_q -----------------------------------------
    for (g2, tag) in [(G2_44, "g2_95232"), (G2_65, "g2_261888")] {
        sw.run(&format!("decompose_{tag}"), 0, Q - 1, s23, 0, |r| {
            let want = o_decompose(g2, r);
            let got = hk::decompose(g2 as i32, r as i32);
            let hb = hk::high_bits(g2 as i32, r as i32);
            let lb = hk::low_bits(g2 as i32, r as i32);
            if (i64::from(got.0), i64::from(got.1)) != want || i64::from(hb) != want.0 || i64::from(lb) != want.1 {
                return Some(format!("got {got:?} high {hb} low {lb} want {want:?}"));
            }
            None
        });
        for h in [0i64, 1] {
            sw.run(&format!("use_hint_{tag}_h{h}"), 0, Q - 1, s23, 0, |r| {
                let want = o_use_hint(g2, h, r);
                let got = hk::use_hint(g2 as i32, h as i32, r as i32);
                if i64::from(got) != want { Some(format!("got {got} want {want}")) } else { None }
            });
        }
        // Decompose on the i32 precondition range, against r mod q
        let f = |r: i64| {
            let want = o_decompose(g2, r);
            let got = hk::decompose(g2 as i32, r as i32);
            if (i64::from(got.0), i64::from(got.1)) != want { Some(format!("got {got:?} want {want:?}")) } else { None }
        };
        if full32 {
            sw.run(&format!("decompose_i32_{tag}"), -(PRE32 - 1), PRE32 - 1, 1, 0, f);
        } else {
            sw.run(&format!("decompose_i32_{tag}"), -(PRE32 - 1), PRE32 - 1, stride32, phase, f);
            for (lo, hi) in windows32() {
                sw.run(&format!("decompose_i32_{tag}"), lo, hi, 1, 0, f);
            }
            // windows around the multiples of 2*gamma2 and the corner r+ - r0 = q-1
            for k in 0..=((Q - 1) / (2 * g2)) {
                let c = k * 2 * g2 + g2;
                sw.run(&format!("decompose_i32_{tag}"), (c - 64).max(0), c + 64, 1, 0, f);
            }
        }
        // MakeHint with the caller's shapes: z = Q - ct0, ct0 in [0, q) ; r in (-q, q)
        for ct0 in [0i64, 1, Q - 1, g2 - 1, Q - (g2 - 1), g2, Q - g2, g2 + 1, Q - g2 - 1] {
            let z = Q - ct0;
            sw.run(&format!("make_hint_{tag}"), -(Q - 1), Q - 1, s23, 0, |r| {
                let want = o_make_hint(g2, modq(z), modq(r));
                let got = hk::make_hint(g2 as i32, z as i32, r as i32);
                if got != want { Some(format!("z={z} got {got} want {want}")) } else { None }
            });
        }
        let n_rand = if full32 { 400_000_000i64 } else if checked { 2_000_000 } else { 30_000_000 };
        let seed = ctx.seed;
        sw.run(&format!("make_hint_random_{tag}"), 0, n_rand / 4096 - 1, 1, 0, |blk| {
            let mut g = Prng::derive(seed, "c15-mh", blk as u64);
            for _ in 0..4096 {
                let ct0 = g.range(0, Q - 1);
                let r = g.range(-(Q - 1), Q - 1);
                let z = Q - ct0;
                let want = o_make_hint(g2, modq(z), modq(r));
                if hk::make_hint(g2 as i32, z as i32, r as i32) != want {
                    return Some(format!("z={z} r={r} want {want}"));
                }
            }
            None
        });
        let blocks = (n_rand / 4096) as u64;
        sw.acc.evals(blocks * 4095);
        sw.acc.distinct_enumerated += blocks * 4095;
    }

    // ---- 32-bit reductions and mod+- on the precondition range ---------------------------------
    let f_pr32 = |a: i64| {
        let got = i64::from(hk::partial_reduce32(a as i32));
        if modq(got) != modq(a) || got.abs() >= Q { Some(format!("got {got}")) } else { None }
    };
    let f_fr32 = |a: i64| {
        let got = i64::from(hk::full_reduce32(a as i32));
        if got != modq(a) { Some(format!("got {got} want {}", modq(a))) } else { None }
    };
    let f_cm = |a: i64| {
        let got = i64::from(hk::center_mod(a as i32));
        if got != mod_pm(a, Q) { Some(format!("got {got} want {}", mod_pm(a, Q))) } else { None }
    };
    if full32 {
        sw.run("partial_reduce32", -(PRE32 - 1), PRE32 - 1, 1, 0, f_pr32);
        sw.run("full_reduce32", -(PRE32 - 1), PRE32 - 1, 1, 0, f_fr32);
        sw.run("center_mod", -(PRE32 - 1), PRE32 - 1, 1, 0, f_cm);
    } else {
        sw.run("partial_reduce32", -(PRE32 - 1), PRE32 - 1, stride32, phase, f_pr32);
        sw.run("full_reduce32", -(PRE32 - 1), PRE32 - 1, stride32, phase, f_fr32);
        sw.run("center_mod", -(PRE32 - 1), PRE32 - 1, stride32, phase, f_cm);
        for (lo, hi) in windows32() {
            sw.run("partial_reduce32", lo, hi, 1, 0, f_pr32);
            sw.run("full_reduce32", lo, hi, 1, 0, f_fr32);
            sw.run("center_mod", lo, hi, 1, 0, f_cm);
        }
        // every value in (-2q, 2q): what the callers actually pass most of the time
        sw.run("center_mod", -2 * Q, 2 * Q, s23, 0, f_cm);
        sw.run("full_reduce32", -2 * Q, 2 * Q, s23, 0, f_fr32);
    }

    // ---- Montgomery reduction: all 2^32 low words x high words ------------------------------------
    // a = hi * 2^32 + lo (lo unsigned), documented range -2^31 q <= a <= 2^31 q.
    let lim: i64 = (1i64 << 31) * Q;
    let hi_max = lim >> 32; // 4190208
    let mut his: Vec<i64> = vec![-hi_max - 1, -hi_max, -hi_max + 1, -1, 0, 1, hi_max - 1, hi_max, Q / 4, -Q / 4];
    let n_seeded = if full32 { 64 } else { 48 };
    for _ in 0..n_seeded {
        his.push(g.range(-hi_max, hi_max));
    }
    let r_inv = refimpl::modpow(1i64 << 32, (Q - 2) as u64, Q); // 2^-32 mod q
    let two32 = (1i64 << 32) % Q;
    assert_eq!((two32 as i128 * r_inv as i128).rem_euclid(Q as i128), 1);
    let lo_stride: i64 = if full32 { 1 } else { stride32 };
    for &hi in &his {
        let hi_m = hi.rem_euclid(Q) * two32 % Q;
        sw.run("mont_reduce", 0, (1i64 << 32) - 1, lo_stride, if full32 { 0 } else { phase }, |lo| {
            let a: i64 = (hi << 32) + lo;
            if a < -lim || a > lim - 1 {
                return None; // outside the documented input range
            }
            let got = i64::from(hk::mont_reduce(a));
            let am = (hi_m + lo) % Q; // a mod q, all terms non-negative and < 2^33
            let want = am * r_inv % Q;
            if modq(got) != want || got <= -Q || got >= Q { Some(format!("hi={hi} got {got} want≡{want}")) } else { None }
        });
    }
    sw.acc.count("mont_reduce_high_words", his.len() as u64);

    // ---- partial_reduce64 on x * 2^32 (the only shape to_mont supplies) ----------------------------
    sw.run("partial_reduce64", -(PRE64 - 1), PRE64 - 1, if checked { 13 } else { 1 }, 0, |x| {
        let a: i64 = x << 32;
        let got = i64::from(hk::partial_reduce64(a));
        let want = x.rem_euclid(Q) * two32 % Q;
        if modq(got) != want || got.abs() >= 2 * Q { Some(format!("got {got} want≡{want}")) } else { None }
    });

    // ---- samplers ------------------------------------------------------------------------------------
    sw.run("coeff_from_three_bytes", 0, (1 << 24) - 1, 1, 0, |v| {
        let b = [(v & 0xFF) as u8, ((v >> 8) & 0xFF) as u8, ((v >> 16) & 0xFF) as u8];
        let z = ((i64::from(b[2]) & 0x7F) << 16) | (i64::from(b[1]) << 8) | i64::from(b[0]);
        let want = if z < Q { Some(z) } else { None };
        let got = hk::coeff_from_three_bytes::<false>(b).ok().map(i64::from);
        if got != want {
            return Some(format!("CTEST=false got {got:?} want {want:?}"));
        }
        // constant-time test mode: bit 22 masked too, never rejects
        let zc = ((i64::from(b[2]) & 0x3F) << 16) | (i64::from(b[1]) << 8) | i64::from(b[0]);
        let gotc = hk::coeff_from_three_bytes::<true>(b).ok().map(i64::from);
        if gotc != Some(zc) { Some(format!("CTEST=true got {gotc:?} want {zc}")) } else { None }
    });
    sw.run("coeff_from_half_byte", 0, 63, 1, 0, |v| {
        let b = (v & 15) as u8;
        let eta = if v & 16 == 0 { 2i64 } else { 4 };
        let ctest = v & 32 != 0;
        let be = if ctest { i64::from(b & 7) } else { i64::from(b) };
        let want = if eta == 2 && be < 15 { Some(2 - (be % 5)) } else if eta == 4 && be < 9 { Some(4 - be) } else { None };
        let got = if ctest { hk::coeff_from_half_byte::<true>(eta as i32, b) } else { hk::coeff_from_half_byte::<false>(eta as i32, b) }.ok().map(i64::from);
        if got != want { Some(format!("eta={eta} ctest={ctest} got {got:?} want {want:?}")) } else { None }
    });

    // ---- small helpers the functions above are built from ----------------------------------------------
    sw.run("bit_length", 1, (1 << 24) - 1, if checked { 5 } else { 1 }, 0, |x| {
        let want = 64 - (x as u64).leading_zeros() as usize;
        let got = hk::bit_length(x as i32);
        if got != want { Some(format!("got {got} want {want}")) } else { None }
    });
    {
        let seed = ctx.seed;
        sw.run("infinity_norm_and_is_in_range", 0, if checked { 3_000 } else { 40_000 }, 1, 0, |blk| {
            let mut g = Prng::derive(seed, "c15-norm", blk as u64);
            // a vector of 4 polynomials with a planted extreme at a random slot
            let lim = *g.pick(&[Q - 1, (Q - 1) / 2, (Q + 1) / 2, 1 << 19, 1 << 17, 4096, 2, 1]);
            let mut v: [[i32; 256]; 4] = core::array::from_fn(|_| core::array::from_fn(|_| g.range(-lim / 2, lim / 2) as i32));
            let (pi, ci) = (g.below(4) as usize, g.below(256) as usize);
            let planted = *g.pick(&[lim, -lim, lim - 1, -(lim - 1), 0]);
            v[pi][ci] = planted as i32;
            let want = v.iter().flat_map(|p| p.iter()).map(|&c| mod_pm(i64::from(c), Q).abs()).max().unwrap();
            let got = i64::from(hk::infinity_norm::<4>(&v));
            if got != want {
                return Some(format!("infinity_norm got {got} want {want}"));
            }
            // is_in_range(w, lo, hi) <=> all -lo <= w_i <= hi
            let (lo, hi) = (g.range(0, lim), g.range(0, lim));
            let want_r = v[pi].iter().all(|&c| i64::from(c) >= -lo && i64::from(c) <= hi);
            if hk::is_in_range(&v[pi], lo as i32, hi as i32) != want_r {
                return Some(format!("is_in_range(lo={lo}, hi={hi}) want {want_r}"));
            }
            None
        });
    }

    // ---- zeta table --------------------------------------------------------------------------------
    let zt = hk::zeta_table_mont();
    sw.run("zeta_table_mont", 0, 255, 1, 0, |m| {
        let want = ((refimpl::modpow(1753, refimpl::bitrev8(m as usize) as u64, Q) as i128) << 32).rem_euclid(Q as i128) as i64;
        let got = i64::from(zt[m as usize]);
        if got != want { Some(format!("got {got} want {want}")) } else { None }
    });

    acc.sample(json!({"function": "decompose", "gamma2": G2_44, "input": 8_285_185, "definition_value": format!("{:?}", o_decompose(G2_44, 8_285_185)), "crate_value": format!("{:?}", hk::decompose(G2_44 as i32, 8_285_185)), "note": "the r+ - r0 = q-1 corner"}));
    acc.sample(json!({"function": "mont_reduce", "input": "hi*2^32 + lo for all lo in 0..2^32 (thorough) or strided (quick)", "high_words": his.iter().take(10).collect::<Vec<_>>()}));
    acc.sample(json!({"function": "center_mod", "input": (Q - 1) / 2 + 1, "definition_value": mod_pm((Q - 1) / 2 + 1, Q), "crate_value": hk::center_mod(((Q - 1) / 2 + 1) as i32)}));
    acc.count("stride_of_2^32_domains", if full32 { 1 } else { stride32 as u64 });
    StageOut::new("C15", RULE, full32, acc)
}
