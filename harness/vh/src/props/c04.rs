//! C04 — key generation is exactly the FIPS 204 function of the 32-byte seed.

use crate::for_sets;
use crate::guard::guarded;
use crate::props::common::*;
use crate::props::StageOut;
use crate::rngs::{FaultKind, FaultRng, RecordingRng};
use crate::sets::PS;
use crate::util::{digest64, hex, par_map, Acc, Prng};
use crate::Ctx;
use refimpl as r;
use serde_json::json;

const RULE: &str = "seeds: all-0, all-FF, 256 single-bit seeds (thorough), random, plus seeds pre-selected by running the instrumented reference over tens of thousands of candidates for rare events (A*s1+s2 wrapping past q or below 0 before reduction, about 1 seed in 10^4; three-byte sample == q or q+-1; a RejBoundedPoly call needing more than two SHAKE256 blocks, found by a SHAKE-only scan of 16x as many candidates); each through KG::keygen_from_seed, the module-level try_keygen_with_rng and KG::try_keygen_with_rng under a recording RNG whose script is seed || random tail. into_bytes() of both keys must equal the reference KeyGen_internal pkEncode/skEncode bytes; RNG log must be one try_fill_bytes(32) consuming exactly the seed; different tails and repeated calls must not change the keys; (no other source of variation) the RNG-driven entry points called twice with the same scripted generator that FAILS its request (before writing, after 16 bytes, after the full 32) must give the same outcome both times — two Ok results with different keys mean bytes from somewhere other than the supplied generator (whether an Ok is acceptable at all is C12's question). Non-trivial = distinct seeds for which all three entry points matched the reference.";

pub fn run(ctx: &Ctx) -> StageOut {
    let mut acc = Acc::new();
    if !oracle_gate(ctx, &mut acc) {
        return StageOut::new("C04", RULE, false, acc);
    }
    for a in for_sets!(ctx.sets, run_set(ctx)) {
        acc.merge(a);
    }
    StageOut::new("C04", RULE, false, acc)
}

/// Cheap pre-filter: does ExpandA(rho(xi)) contain a three-byte sample equal to q-1, q or q+1?
fn rare_expand_a_seed(p: &r::Params, xi: &[u8; 32]) -> (u64, u64, u64) {
    let seed = r::h(&[xi, &[p.k as u8], &[p.l as u8]], 32);
    r::events_reset();
    let _ = r::expand_a(p, &seed);
    let e = r::events_take();
    (e.three_byte_eq_qm1, e.three_byte_eq_q, e.three_byte_eq_qp1)
}

pub fn check_seed<S: PS>(acc: &mut Acc, xi: &[u8; 32], class: &str, tail_seed: u64) {
    let p = S::p();
    acc.eval();
    r::events_reset();
    let (want_pk, want_sk) = r::keygen_internal(p, xi);
    let ev = r::events_take();
    acc.count("ref_three_byte_rejections", ev.three_byte_rejections);
    acc.count("ref_three_byte_eq_q", ev.three_byte_eq_q);
    acc.count("ref_three_byte_eq_q_minus_1", ev.three_byte_eq_qm1);
    acc.count("ref_three_byte_eq_q_plus_1", ev.three_byte_eq_qp1);
    acc.count("ref_half_byte_rejections", ev.half_byte_rejections);
    acc.count("ref_power2round_ties", ev.p2r_ties);
    acc.count("ref_t_wrap_high", ev.t_wrap_high);
    acc.count("ref_t_wrap_low", ev.t_wrap_low);
    acc.count("ref_t1_equals_1023", ev.t1_max);
    let replay = |what: &str| json!({"kind": "keygen-diff", "set": S::SET, "xi": hex(xi), "entry": what, "class": class});
    let mut ok = true;
    // 1. seeded
    match guarded(|| {
        let (pk, sk) = S::keygen_seed(xi);
        (S::pk_bytes(&pk), S::sk_bytes(&sk))
    }) {
        Ok((pk, sk)) => {
            if pk != want_pk || sk != want_sk {
                ok = false;
                acc.violation(&format!("C04|seeded-differs|{}|pk={}|sk={}", p.name, pk == want_pk, sk == want_sk), "keygen_from_seed output differs from FIPS 204 KeyGen_internal".into(), replay("keygen_from_seed"));
            }
        }
        Err(pi) => {
            ok = false;
            panic_violation(acc, "C04", "keygen_from_seed", class, &pi, replay("keygen_from_seed"));
        }
    }
    // 2./3. RNG-driven variants with two different tails
    for (entry, which) in [("try_keygen_with_rng", 0), ("KG::try_keygen_with_rng", 1)] {
        for t in 0..2u64 {
            let mut g = Prng::derive(tail_seed, "c04-tail", t);
            let mut script = xi.to_vec();
            script.extend(g.bytes(96));
            let res = guarded(|| {
                let mut rng = RecordingRng::strict(&script);
                let out = if which == 0 { S::keygen_rng(&mut rng) } else { S::keygen_rng_trait(&mut rng) };
                let log_ok = rng.only_try_fill_32(1) && rng.pos == 32;
                (out.map(|(pk, sk)| (S::pk_bytes(&pk), S::sk_bytes(&sk))), log_ok)
            });
            match res {
                Ok((Ok((pk, sk)), log_ok)) => {
                    if pk != want_pk || sk != want_sk {
                        ok = false;
                        acc.violation(&format!("C04|rng-differs|{}|{entry}", p.name), format!("{entry} keys are not KeyGen_internal of the 32 bytes drawn"), replay(entry));
                    }
                    if !log_ok {
                        ok = false;
                        acc.violation(&format!("C04|rng-log|{}|{entry}", p.name), format!("{entry} did not draw exactly one try_fill_bytes(32)"), replay(entry));
                    }
                }
                Ok((Err(e), _)) => {
                    ok = false;
                    acc.violation(&format!("C04|rng-err|{}|{entry}", p.name), format!("{entry} returned Err({e}) with a healthy RNG"), replay(entry));
                }
                Err(pi) => {
                    ok = false;
                    panic_violation(acc, "C04", entry, class, &pi, replay(entry));
                }
            }
        }
    }
    if ok {
        acc.nontrivial(digest64(&[&[S::SET as u8], xi]));
        acc.count(&format!("match_{class}"), 1);
        if acc.samples.len() < 3 {
            acc.sample(json!({"set": p.name, "class": class, "xi": hex(xi), "pk_sha256": crate::util::sha256_hex(&want_pk),
                "sk_sha256": crate::util::sha256_hex(&want_sk), "entries": ["keygen_from_seed", "try_keygen_with_rng x2 tails", "KG::try_keygen_with_rng x2 tails"],
                "three_byte_rejections": ev.three_byte_rejections, "half_byte_rejections": ev.half_byte_rejections, "power2round_ties": ev.p2r_ties}));
        }
    }
}

fn run_set<S: PS>(ctx: &Ctx) -> Acc {
    let p = S::p();
    let n_random = ctx.budget(160, 30_000) as usize;
    let mut seeds: Vec<([u8; 32], &'static str)> = vec![([0u8; 32], "fixed"), ([0xFFu8; 32], "fixed")];
    let single_bits = if ctx.thorough() { 256 } else { 8 };
    for b in 0..single_bits {
        let mut s = [0u8; 32];
        let bit = if ctx.thorough() { b } else { (b * 37 + ctx.seed as usize) % 256 };
        s[bit / 8] = 1 << (bit % 8);
        seeds.push((s, "single-bit"));
    }
    let mut g = Prng::derive(ctx.seed, &format!("c04-{}", p.name), 0);
    for _ in 0..n_random {
        seeds.push((g.arr32(), "random"));
    }
    // rare-event pre-scan with the instrumented reference: seeds whose key generation wraps
    // A*s1 + s2 past q or below 0 before reduction, or whose ExpandA stream contains a three-byte
    // sample equal to q-1 / q / q+1
    let n_scan = ctx.budget(24_000, 300_000) as usize;
    let rare = rare_keygen_seeds(ctx, p, n_scan);
    let mut tag_names: Vec<&'static str> = Vec::new();
    for r in &rare {
        let tag: &'static str = if r.tags.iter().any(|t| t == "t-wrap-high") { "rare-t-wrap-high" } else if r.tags.iter().any(|t| t == "t-wrap-low") { "rare-t-wrap-low" } else if r.tags.iter().any(|t| t == "rbp-over-2-blocks") { "rare-rbp-over-2-blocks" } else if r.tags.iter().any(|t| t.starts_with("rnp-")) { "rare-rnp-reject-run" } else { "rare-three-byte" };
        seeds.push((r.xi, tag));
        tag_names.push(tag);
    }
    let n_rare = rare.len();
    let mut acc_nv = Acc::new();
    no_other_source::<S>(&mut acc_nv, &mut g);
    let accs = par_map(seeds.len(), |i| {
        let mut acc = Acc::new();
        check_seed::<S>(&mut acc, &seeds[i].0, seeds[i].1, ctx.seed ^ (i as u64) << 8);
        acc
    });
    let mut acc = Acc::merge_all(accs);
    acc.merge(acc_nv);
    acc.count("seeds_scanned_for_rare_events", n_scan as u64);
    acc.count("rare_seeds_checked", n_rare as u64);
    for t in ["rare-t-wrap-high", "rare-t-wrap-low", "rare-rbp-over-2-blocks", "rare-rnp-reject-run", "rare-three-byte"] {
        acc.count(&format!("seeds_{t}"), tag_names.iter().filter(|x| **x == t).count() as u64);
    }
    if n_rare == 0 {
        acc.inconclusive(format!("{}: the rare-event scan found no seed", p.name));
    }
    acc
}

/// "Key generation has no other source of variation": with a generator whose request fails, whatever the
/// entry point does must be a function of what that generator did. Two identical calls are compared.
fn no_other_source<S: PS>(acc: &mut Acc, g: &mut Prng) {
    let p = S::p();
    for which in 0..2usize {
        let entry = if which == 0 { "try_keygen_with_rng" } else { "KG::try_keygen_with_rng" };
        for kind in [FaultKind::Before, FaultKind::AfterPartial(16), FaultKind::AfterFull] {
            for code in [rand_core::Error::CUSTOM_START + 7, 4u32, 11] {
                let script = g.bytes(96);
                let run = |script: &[u8]| {
                    guarded(|| {
                        let mut rng = FaultRng::new(script, 0, kind).with_code(code);
                        let out = if which == 0 { S::keygen_rng(&mut rng) } else { S::keygen_rng_trait(&mut rng) };
                        out.map(|(pk, sk)| [S::pk_bytes(&pk), S::sk_bytes(&sk)].concat()).map_err(|e| e.to_string())
                    })
                };
                acc.eval();
                let (a, b) = (run(&script), run(&script));
                let replay = json!({"kind": "c04-fault-determinism", "set": S::SET, "entry": entry, "fault": format!("{kind:?}"), "code": code, "script": hex(&script)});
                match (a, b) {
                    (Ok(a), Ok(b)) => {
                        if a != b {
                            acc.violation(&format!("C04|other-source-of-variation|{}|{entry}|{kind:?}", p.name), format!("{entry} called twice with the same failing generator ({kind:?}, code {code}) gave different results: the keys do not depend on the supplied generator alone"), replay);
                        } else {
                            acc.count(if a.is_ok() { "failing_rng_same_ok_twice" } else { "failing_rng_err_twice" }, 1);
                            acc.nontrivial(digest64(&[b"c04-fault", &[S::SET as u8, which as u8], format!("{kind:?}{code}").as_bytes()]));
                        }
                    }
                    (Err(pi), _) | (_, Err(pi)) => panic_violation(acc, "C04", entry, "failing-generator", &pi, replay),
                }
            }
        }
    }
}
