//! C05 — any single-bit change invalidates a signature: every bit position of sig, pk, message
//! and context of each valid tuple is flipped and verified.

use crate::for_sets;
use crate::gen;
use crate::guard::guarded;
use crate::props::common::*;
use crate::props::StageOut;
use crate::sets::PS;
use crate::util::{digest64, hex, hex_short, par_map, Acc, Prng};
use crate::Ctx;
use refimpl as r;
use refimpl::{Mode, Poly, MODES};
use serde_json::json;

const RULE: &str = "valid tuples (pk, M, ctx, mode, sig): honest keys in all four modes, a tuple whose hint weight is within 2 of omega, a degenerate-key (t1=0) tuple with an empty hint and one whose hints all sit in the first polynomial (repeated cumulative counts, indices 0 and 255), and three with a completely full hint vector (weight exactly omega: spread, all in the last, all in the first polynomial); for each tuple EVERY single-bit flip of the signature, of the serialised public key, of the message and of the context is verified and must return false (the unmutated tuple must return true). Crate results equal to `true` are cross-checked against the reference; a 1% sample of rejections is cross-checked too. Exhaustive over bit positions per tuple, not over tuples. Non-trivial = distinct (tuple, field, bit) mutants evaluated.";

struct Tuple {
    label: String,
    pk: Vec<u8>,
    m: Vec<u8>,
    cx: Vec<u8>,
    mode: Mode,
    sig: Vec<u8>,
}

pub fn run(ctx: &Ctx) -> StageOut {
    let mut acc = Acc::new();
    if !oracle_gate(ctx, &mut acc) {
        return StageOut::new("C05", RULE, false, acc);
    }
    for a in for_sets!(ctx.sets, run_set(ctx)) {
        acc.merge(a);
    }
    StageOut::new("C05", RULE, true, acc)
}

fn tuples<S: PS>(ctx: &Ctx, acc: &mut Acc) -> Vec<Tuple> {
    let p = S::p();
    let mut g = Prng::derive(ctx.seed, &format!("c05-{}", p.name), 0);
    let mut out = Vec::new();
    let n_honest = ctx.budget(2, 6) as usize;
    let xi = g.arr32();
    let (pk_b, sk_b) = r::keygen_internal(p, &xi);
    let Ok(Ok(sk)) = guarded(|| S::sk_from(&sk_b)) else {
        acc.inconclusive("cannot load key".into());
        return out;
    };
    let ctx_lens = [255usize, 1, 0, 17, 128, 2];
    let msg_lens = [64usize, 1, 33, 0, 200, 8];
    for i in 0..n_honest {
        let mode = if i == 0 { Mode::Pure } else if i == 1 { *g.pick(&[Mode::Sha256, Mode::Sha512, Mode::Shake128]) } else { MODES[i % 4] };
        let m = g.bytes(msg_lens[i % 6]);
        let cx = g.bytes(ctx_lens[i % 6]);
        let rnd = g.arr32();
        if let Ok((Ok(sig), _)) = sign_replay::<S>(&sk, &m, &cx, mode, &rnd) {
            out.push(Tuple { label: format!("honest-{}", mode.name()), pk: pk_b.clone(), m, cx, mode, sig });
        }
    }
    if ctx.thorough() {
        // a tuple with hint weight >= omega-2 (search)
        let mut best: Option<(u8, Vec<u8>, [u8; 32], Vec<u8>)> = None;
        for _ in 0..4000 {
            let m = g.bytes(16);
            let rnd = g.arr32();
            if let Ok((Ok(sig), _)) = sign_replay::<S>(&sk, &m, &[], Mode::Pure, &rnd) {
                let w = sig[p.sig_len - 1];
                if best.as_ref().map_or(true, |b| w > b.0) {
                    best = Some((w, m, rnd, sig));
                }
                if usize::from(w) + 2 >= p.omega {
                    break;
                }
            }
        }
        if let Some((w, m, _, sig)) = best {
            acc.maxi(&format!("max_tuple_hint_weight_{}", p.name), i64::from(w));
            out.push(Tuple { label: format!("honest-heavy-hint-w{w}"), pk: pk_b.clone(), m, cx: vec![], mode: Mode::Pure, sig });
        }
    }
    // degenerate-key tuple, empty hint, small z
    let rho = g.bytes(32);
    let m = g.bytes(24);
    let cx = g.bytes(3);
    let mode = Mode::Pure;
    let mp = r::format_message(mode, &m, &cx).unwrap();
    let z: Vec<Poly> = (0..p.l).map(|_| core::array::from_fn(|_| g.range(-5, 5))).collect();
    let h = vec![r::ZERO; p.k];
    let sig = gen::forge_degenerate(p, &rho, &mp, &z, &h, None);
    out.push(Tuple { label: "degenerate-key-empty-hint".into(), pk: gen::degenerate_pk(p, &rho), m: m.clone(), cx: cx.clone(), mode, sig });
    // degenerate-key tuple whose hints all sit in the first polynomial: the later cumulative counts repeat
    // (empty polynomials after a non-empty one), and index 0 / 255 are used
    let mut h = vec![r::ZERO; p.k];
    for j in [0usize, 1, 77, 254, 255] {
        h[0][j] = 1;
    }
    let sig = gen::forge_degenerate(p, &rho, &mp, &z, &h, None);
    out.push(Tuple { label: "degenerate-key-hints-in-first-poly".into(), pk: gen::degenerate_pk(p, &rho), m: m.clone(), cx: cx.clone(), mode, sig });
    // degenerate-key tuples with a completely FULL hint vector (weight exactly omega: no padding byte left, the
    // last count byte equals omega): spread over all polynomials, all in the last polynomial, all in the first
    for (layout, name) in [(0u64, "spread"), (1, "last-poly"), (2, "first-poly")] {
        let h = gen::hint_with_weight(&mut g, p, p.omega, layout);
        let sig = gen::forge_degenerate(p, &rho, &mp, &z, &h, None);
        out.push(Tuple { label: format!("degenerate-key-full-hint-{name}"), pk: gen::degenerate_pk(p, &rho), m: m.clone(), cx: cx.clone(), mode, sig });
    }
    out
}

fn run_set<S: PS>(ctx: &Ctx) -> Acc {
    let p = S::p();
    let mut acc = Acc::new();
    let ts = tuples::<S>(ctx, &mut acc);
    for (ti, t) in ts.iter().enumerate() {
        // the unmutated tuple must verify
        let base = guarded(|| S::verify(&S::pk_from(&t.pk).unwrap(), &t.m, &t.sig, &t.cx, t.mode));
        if !matches!(base, Ok(true)) {
            acc.violation(&format!("C05|base-tuple-rejected|{}|{}", p.name, t.label), "a tuple constructed to be valid does not verify (see C01/C02)".into(),
                json!({"kind":"verify-diff","set":S::SET,"mode":t.mode.name(),"pk":hex(&t.pk),"message":hex(&t.m),"ctx":hex(&t.cx),"sig":hex(&t.sig),"class":"c05-base"}));
            continue;
        }
        acc.count("base_tuples_valid", 1);
        let v0 = acc.violations.len();
        let fields: [(&str, usize); 4] = [("sig", t.sig.len() * 8), ("pk", t.pk.len() * 8), ("message", t.m.len() * 8), ("ctx", t.cx.len() * 8)];
        for (fname, nbits) in fields {
            if nbits == 0 {
                continue;
            }
            let chunks = 64usize.min(nbits);
            let res = par_map(chunks, |c| {
                // own key object per worker (key types need not be Sync)
                let pk_obj = S::pk_from(&t.pk).unwrap();
                let mut a = Acc::new();
                let lo = c * nbits / chunks;
                let hi = (c + 1) * nbits / chunks;
                let mut g = Prng::derive(ctx.seed, "c05-sample", (ti * 4_000_000 + lo) as u64);
                for bit in lo..hi {
                    a.eval();
                    let mut sig = t.sig.clone();
                    let mut pk = t.pk.clone();
                    let mut m = t.m.clone();
                    let mut cx = t.cx.clone();
                    match fname {
                        "sig" => gen::flip_bit(&mut sig, bit),
                        "pk" => gen::flip_bit(&mut pk, bit),
                        "message" => gen::flip_bit(&mut m, bit),
                        _ => gen::flip_bit(&mut cx, bit),
                    }
                    let got = guarded(|| {
                        if fname == "pk" {
                            S::verify(&S::pk_from(&pk).expect("pk deserialises"), &m, &sig, &cx, t.mode)
                        } else {
                            S::verify(&pk_obj, &m, &sig, &cx, t.mode)
                        }
                    });
                    let replay = || json!({"kind":"verify-diff","class":format!("c05-{fname}-bit{bit}"),"set":S::SET,"mode":t.mode.name(),"pk":hex(&pk),"message":hex(&m),"ctx":hex(&cx),"sig":hex(&sig),"tuple":t.label,"field":fname,"bit":bit});
                    match got {
                        Err(pi) => panic_violation(&mut a, "C05", "verify", &format!("{fname}-flip"), &pi, replay()),
                        Ok(true) => {
                            let refv = r::verify(p, &pk, &m, &sig, &cx, t.mode);
                            if refv {
                                a.violation(&format!("C05|accepted-and-reference-agrees|{}|{fname}", p.name), format!("flipping bit {bit} of {fname} still verifies under BOTH the crate and the reference: SHAKE256 collision candidate or harness error"), replay());
                            } else {
                                a.violation(&format!("C05|bitflip-accepted|{}|{fname}|{}", p.name, t.label), format!("flipping bit {bit} of {fname} ({}) still verifies", t.label), replay());
                            }
                        }
                        Ok(false) => {
                            a.nontrivial(digest64(&[&[S::SET as u8, ti as u8], fname.as_bytes(), &(bit as u64).to_le_bytes()]));
                            a.count(&format!("rejected_{fname}_flips"), 1);
                            if g.below(100) == 0 {
                                a.count("reference_cross_checks", 1);
                                if r::verify(p, &pk, &m, &sig, &cx, t.mode) {
                                    a.violation(&format!("C05|reference-accepts-mutant|{}|{fname}", p.name), format!("reference accepts bit {bit} flip of {fname} that the crate rejects (see C02)"), replay());
                                }
                            }
                        }
                    }
                }
                a
            });
            for a in res {
                acc.merge(a);
            }
        }
        if acc.samples.len() < 4 {
            acc.sample(json!({"set": p.name, "tuple": t.label, "mode": t.mode.name(), "pk": hex_short(&t.pk), "message": hex_short(&t.m),
                "ctx": hex_short(&t.cx), "sig": hex_short(&t.sig), "bits_flipped": {"sig": t.sig.len()*8, "pk": t.pk.len()*8, "message": t.m.len()*8, "ctx": t.cx.len()*8},
                "all_rejected": acc.violations.len() == v0}));
        }
    }
    acc
}
