//! Sparse-coset adversarial response vectors (DESIGN 3.2).
//!
//! The inverse NTT's coefficient 0 accumulates the plain sum of its 256 inputs. For a signature
//! under verification the inputs of row k are sums over the l columns of Montgomery products
//! A[k][j][n] * z_hat[j][n], each about a centred residue in (-q/2, q/2]. Choosing
//! z_j = sum_{t<m} c_t X^(t*256/m) makes z_hat_j constant on m cosets of 256/m positions, so each
//! coset's contribution g_r(v) = sum_{n in coset} cmod(A[k][j][n] * v) can be scanned over all
//! v in Z_q; the best values of the first m-1 cosets are fixed and c_0 is scanned over the allowed
//! box, which determines the last coset's value and the remaining coefficients.

use crate::util::par_map;
use refimpl as r;
use refimpl::{Params, Poly, Q};

#[inline]
fn cmod(x: i64) -> i64 { if 2 * x > Q { x - Q } else { x } }

fn inv_mod(a: i64) -> i64 { r::modpow(a.rem_euclid(Q), (Q - 2) as u64, Q) }

/// Coset structure of X^(256/m): returns (value rho_r per coset, member positions per coset)
pub fn cosets(m: usize) -> (Vec<i64>, Vec<Vec<usize>>) {
    let mut x = r::ZERO;
    if m == 256 {
        x[1] = 1;
    } else {
        x[256 / m] = 1;
    }
    let xh = r::ntt(&x);
    let mut vals: Vec<i64> = Vec::new();
    let mut members: Vec<Vec<usize>> = Vec::new();
    for (n, &v) in xh.iter().enumerate() {
        match vals.iter().position(|&u| u == v) {
            Some(i) => members[i].push(n),
            None => {
                vals.push(v);
                members.push(vec![n]);
            }
        }
    }
    assert_eq!(vals.len(), m, "expected {m} cosets");
    (vals, members)
}

/// top-T arguments v in Z_q of g(v) = sum_n cmod(a_n * v mod q)
fn scan_coset(a: &[i64], top: usize) -> Vec<(i64, i64)> {
    let mut x = vec![0i64; a.len()];
    let mut best: Vec<(i64, i64)> = Vec::new(); // (g, v)
    let mut floor = i64::MIN;
    for v in 1..Q {
        let mut g = 0i64;
        for (xi, &ai) in x.iter_mut().zip(a.iter()) {
            let mut t = *xi + ai;
            if t >= Q {
                t -= Q;
            }
            *xi = t;
            g += if 2 * t > Q { t - Q } else { t };
        }
        if g > floor {
            best.push((g, v));
            best.sort_by(|p, q| q.0.cmp(&p.0));
            best.truncate(top);
            if best.len() == top {
                floor = best[top - 1].0;
            }
        }
    }
    best
}

#[derive(Clone, Debug)]
pub struct ColumnChoice {
    pub c: Vec<i64>, // m coefficients, centred
    pub total: i64,  // predicted column contribution
}

/// Best few coefficient choices for column polynomial `a_hat` (NTT domain, values in [0,q)).
pub fn search_column(a_hat: &Poly, m: usize, top: usize, bound: i64, keep: usize) -> Vec<ColumnChoice> {
    let (rho, members) = cosets(m);
    // per-coset top-T
    let tops: Vec<Vec<(i64, i64)>> = (0..m - 1)
        .map(|rix| {
            let a: Vec<i64> = members[rix].iter().map(|&n| a_hat[n]).collect();
            scan_coset(&a, top)
        })
        .collect();
    let a_last: Vec<i64> = members[m - 1].iter().map(|&n| a_hat[n]).collect();
    // Vandermonde V[r][t] = rho_r^t and its inverse (Gauss-Jordan mod q)
    let mut aug: Vec<Vec<i64>> = (0..m)
        .map(|rix| {
            let mut row: Vec<i64> = (0..m).map(|t| r::modpow(rho[rix], t as u64, Q)).collect();
            row.extend((0..m).map(|t| i64::from(t == rix)));
            row
        })
        .collect();
    for col in 0..m {
        let piv = (col..m).find(|&i| aug[i][col] != 0).expect("singular Vandermonde");
        aug.swap(col, piv);
        let inv = inv_mod(aug[col][col]);
        for x in aug[col].iter_mut() {
            *x = *x * inv % Q;
        }
        for i in 0..m {
            if i != col && aug[i][col] != 0 {
                let f = aug[i][col];
                let pivot_row = aug[col].clone();
                for (x, p) in aug[i].iter_mut().zip(pivot_row.iter()) {
                    *x = (*x - f * p).rem_euclid(Q);
                }
            }
        }
    }
    let vinv: Vec<Vec<i64>> = aug.iter().map(|row| row[m..].to_vec()).collect(); // c = vinv * v
    let u: Vec<i64> = (0..m).map(|t| vinv[t][m - 1]).collect();
    if u[0] == 0 {
        return vec![];
    }
    let u0_inv = inv_mod(u[0]);
    let d: Vec<i64> = (0..m).map(|t| u[t] * u0_inv % Q).collect(); // c_t step per unit of c_0
    let n_combos = top.pow((m - 1) as u32);
    let mut out: Vec<ColumnChoice> = Vec::new();
    for combo in 0..n_combos {
        let mut idx = combo;
        let mut vfix = vec![0i64; m - 1];
        let mut gsum = 0i64;
        let mut ok = true;
        for rix in 0..m - 1 {
            let pick = idx % top;
            idx /= top;
            if pick >= tops[rix].len() {
                ok = false;
                break;
            }
            vfix[rix] = tops[rix][pick].1;
            gsum += tops[rix][pick].0;
        }
        if !ok {
            continue;
        }
        let base: Vec<i64> = (0..m).map(|t| (0..m - 1).map(|rix| vinv[t][rix] * vfix[rix] % Q).sum::<i64>() % Q).collect();
        // start at c_0 = -bound
        let c0_start = (-bound).rem_euclid(Q);
        let mut v_last = ((c0_start - base[0]).rem_euclid(Q)) * u0_inv % Q;
        let mut c: Vec<i64> = (0..m).map(|t| (base[t] + v_last * u[t]) % Q).collect();
        for c0 in -bound..=bound {
            debug_assert_eq!(c[0], c0.rem_euclid(Q));
            let mut inside = true;
            for t in 1..m {
                let ct = cmod(c[t]);
                if ct > bound || ct < -bound {
                    inside = false;
                    break;
                }
            }
            if inside {
                let g_last: i64 = a_last.iter().map(|&an| cmod((an as i128 * v_last as i128 % Q as i128) as i64)).sum();
                let total = gsum + g_last;
                if out.len() < keep || total > out.last().map_or(i64::MIN, |x| x.total) {
                    out.push(ColumnChoice { c: c.iter().map(|&x| cmod(x)).collect(), total });
                    out.sort_by(|p, q| q.total.cmp(&p.total));
                    out.truncate(keep);
                }
            }
            v_last = (v_last + u0_inv) % Q;
            for t in 0..m {
                c[t] = (c[t] + d[t]) % Q;
            }
        }
    }
    out
}

pub fn poly_from_choice(m: usize, c: &[i64]) -> Poly {
    let mut z = r::ZERO;
    for (t, &ct) in c.iter().enumerate() {
        z[t * (256 / m)] = ct;
    }
    z
}

pub struct RowWitness {
    pub row: usize,
    pub predicted_sum: i64,
    /// per column, the kept alternatives (best first)
    pub columns: Vec<Vec<ColumnChoice>>,
    pub m: usize,
}

/// Search the best row of A(rho) for parameter set p. m / top / keep tune the effort.
pub fn search(p: &Params, rho: &[u8], m: usize, top: usize, keep: usize, rows: &[usize]) -> Option<RowWitness> {
    let a = r::expand_a(p, rho);
    let bound = p.gamma1 - p.beta - 1;
    let jobs: Vec<(usize, usize)> = rows.iter().flat_map(|&k| (0..p.l).map(move |j| (k, j))).collect();
    let res = par_map(jobs.len(), |i| {
        let (k, j) = jobs[i];
        search_column(&a[k][j], m, top, bound, keep)
    });
    let mut best: Option<RowWitness> = None;
    for (ri, &k) in rows.iter().enumerate() {
        let cols: Vec<Vec<ColumnChoice>> = (0..p.l).map(|j| res[ri * p.l + j].clone()).collect();
        if cols.iter().any(|c| c.is_empty()) {
            continue;
        }
        let sum: i64 = cols.iter().map(|c| c[0].total).sum();
        if best.as_ref().map_or(true, |b| sum > b.predicted_sum) {
            best = Some(RowWitness { row: k, predicted_sum: sum, columns: cols, m });
        }
    }
    best
}
