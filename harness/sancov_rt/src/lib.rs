//! placeholder (filled in for C14)
