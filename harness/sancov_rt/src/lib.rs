//! SanitizerCoverage runtime: trace-equality monitor.
//!
//! This crate is never instrumented itself. While a recording window is open, every edge
//! (`trace_pc_guard`) and every load/store address (`trace-loads`/`trace-stores`) of instrumented
//! code is folded into rolling hashes and counters; an optional bounded log supports diagnosing
//! the first divergence between two runs. Single-threaded by design: only the thread that runs
//! the function under test executes instrumented code while the window is open.

#![allow(static_mut_refs)]

use std::sync::atomic::{AtomicBool, Ordering};

static ACTIVE: AtomicBool = AtomicBool::new(false);
static mut EDGE_HASH: u64 = 0;
static mut EDGE_CNT: u64 = 0;
static mut MEM_HASH: u64 = 0;
static mut MEM_CNT: u64 = 0;
static mut N_GUARDS: u32 = 0;
static mut PCS_BEG: *const usize = std::ptr::null();
static mut PCS_END: *const usize = std::ptr::null();
static mut LOGGING: bool = false;
static mut LOG: Vec<(u8, u64)> = Vec::new();
static mut LOG_CAP: usize = 0;

#[inline(always)]
fn mix(h: u64, v: u64) -> u64 {
    // splitmix-style avalanche of (h ^ v): order-sensitive rolling hash
    let mut z = (h ^ v).wrapping_add(0x9E37_79B9_7F4A_7C15);
    z = (z ^ (z >> 30)).wrapping_mul(0xBF58_476D_1CE4_E5B9);
    z = (z ^ (z >> 27)).wrapping_mul(0x94D0_49BB_1331_11EB);
    z ^ (z >> 31) ^ h.rotate_left(17)
}

#[derive(Debug, Clone, Copy, PartialEq, Eq, Hash)]
pub struct Trace {
    pub edge_hash: u64,
    pub edge_count: u64,
    pub mem_hash: u64,
    pub mem_count: u64,
}

/// Number of instrumented edges linked into this binary (0 = not an instrumented build).
pub fn guards() -> u32 { unsafe { N_GUARDS } }

pub fn open(log_cap: usize) {
    unsafe {
        EDGE_HASH = 0;
        EDGE_CNT = 0;
        MEM_HASH = 0;
        MEM_CNT = 0;
        LOGGING = log_cap > 0;
        LOG_CAP = log_cap;
        if LOGGING {
            LOG.clear();
            LOG.reserve(log_cap);
        }
    }
    ACTIVE.store(true, Ordering::SeqCst);
}

pub fn close() -> Trace {
    ACTIVE.store(false, Ordering::SeqCst);
    unsafe { Trace { edge_hash: EDGE_HASH, edge_count: EDGE_CNT, mem_hash: MEM_HASH, mem_count: MEM_CNT } }
}

/// The bounded event log of the last window: (kind, value); kind 0 = edge (guard id),
/// 1..=5 loads of 1/2/4/8/16 bytes, 6..=10 stores.
pub fn take_log() -> Vec<(u8, u64)> { unsafe { std::mem::take(&mut LOG) } }

/// PC of guard id (1-based) from the PC table, if present.
pub fn pc_of_guard(id: u32) -> Option<usize> {
    unsafe {
        if PCS_BEG.is_null() || id == 0 {
            return None;
        }
        let idx = (id as usize - 1) * 2;
        let p = PCS_BEG.add(idx);
        if p >= PCS_END {
            return None;
        }
        Some(*p)
    }
}

#[inline(always)]
unsafe fn ev(kind: u8, v: u64) {
    if kind == 0 {
        EDGE_HASH = mix(EDGE_HASH, v);
        EDGE_CNT += 1;
    } else {
        MEM_HASH = mix(MEM_HASH, v ^ ((kind as u64) << 56));
        MEM_CNT += 1;
    }
    if LOGGING && LOG.len() < LOG_CAP {
        LOG.push((kind, v));
    }
}

#[no_mangle]
pub unsafe extern "C" fn __sanitizer_cov_trace_pc_guard_init(start: *mut u32, stop: *mut u32) {
    if start == stop || *start != 0 {
        return;
    }
    let mut p = start;
    while p < stop {
        N_GUARDS += 1;
        *p = N_GUARDS;
        p = p.add(1);
    }
}

#[no_mangle]
pub unsafe extern "C" fn __sanitizer_cov_pcs_init(beg: *const usize, end: *const usize) {
    if PCS_BEG.is_null() {
        PCS_BEG = beg;
        PCS_END = end;
    }
}

#[no_mangle]
pub unsafe extern "C" fn __sanitizer_cov_trace_pc_guard(guard: *mut u32) {
    if ACTIVE.load(Ordering::Relaxed) {
        ev(0, u64::from(*guard));
    }
}

macro_rules! mem_cb {
    ($name:ident, $kind:expr) => {
        #[no_mangle]
        pub unsafe extern "C" fn $name(addr: *const u8) {
            if ACTIVE.load(Ordering::Relaxed) {
                ev($kind, addr as u64);
            }
        }
    };
}
mem_cb!(__sanitizer_cov_load1, 1);
mem_cb!(__sanitizer_cov_load2, 2);
mem_cb!(__sanitizer_cov_load4, 3);
mem_cb!(__sanitizer_cov_load8, 4);
mem_cb!(__sanitizer_cov_load16, 5);
mem_cb!(__sanitizer_cov_store1, 6);
mem_cb!(__sanitizer_cov_store2, 7);
mem_cb!(__sanitizer_cov_store4, 8);
mem_cb!(__sanitizer_cov_store8, 9);
mem_cb!(__sanitizer_cov_store16, 10);
