//! ct — constant-time monitors for C14.
//!
//! ct pipeline <set> <lo> <hi> <seed> <out.json>   sancov build: trace equality of dudect_keygen_sign_with_rng
//! ct kernels <seed> <variants> <out.json>         sancov build: trace equality of each kernel alone
//! ct taint <seed> <out.json>                      plain build under valgrind: secret-taint of each kernel
//! ct one <set> <hex64>                            one pipeline call (callgrind target)

#![allow(deprecated)]

use fips204::verif_hooks as hk;
use rand_core::{CryptoRng, Error, RngCore};
use sancov_rt::Trace;
use serde_json::{json, Value};
use sha2::{Digest, Sha256};
use std::collections::{HashMap, HashSet};

const Q: i32 = 8_380_417;

// ------------------------------------------------------------------------------------------------
// deterministic PRNG for inputs (splitmix)
// ------------------------------------------------------------------------------------------------
struct Sm(u64);
impl Sm {
    fn next(&mut self) -> u64 {
        self.0 = self.0.wrapping_add(0x9E37_79B9_7F4A_7C15);
        let mut z = self.0;
        z = (z ^ (z >> 30)).wrapping_mul(0xBF58_476D_1CE4_E5B9);
        z = (z ^ (z >> 27)).wrapping_mul(0x94D0_49BB_1331_11EB);
        z ^ (z >> 31)
    }
    fn range(&mut self, lo: i64, hi: i64) -> i64 { lo + (self.next() % ((hi - lo + 1) as u64)) as i64 }
}

/// RNG whose own work is input-independent: fixed buffer, fixed-length copies, no allocation.
struct FixedRng {
    buf: [u8; 64],
    pos: usize,
}
impl RngCore for FixedRng {
    fn next_u32(&mut self) -> u32 { unimplemented!() }
    fn next_u64(&mut self) -> u64 { unimplemented!() }
    fn fill_bytes(&mut self, _: &mut [u8]) { unimplemented!() }
    fn try_fill_bytes(&mut self, out: &mut [u8]) -> Result<(), Error> {
        out.copy_from_slice(&self.buf[self.pos..self.pos + out.len()]);
        self.pos += out.len();
        Ok(())
    }
}
impl CryptoRng for FixedRng {}

/// The i-th RNG output (xi || rnd) of the workload: fixed patterns, all single-bit values,
/// low/high weight, then seeded random.
fn pipeline_input(seed: u64, i: u64) -> [u8; 64] {
    let mut b = [0u8; 64];
    match i {
        0 => {}
        1 => b = [0xFF; 64],
        2..=513 => {
            let bit = (i - 2) as usize;
            b[bit / 8] = 1 << (bit % 8);
        }
        514..=1025 => {
            let bit = (i - 514) as usize;
            b = [0xFF; 64];
            b[bit / 8] ^= 1 << (bit % 8);
        }
        _ => {
            let mut g = Sm(seed ^ i.wrapping_mul(0xD1B5_4A32_D192_ED03));
            for c in b.chunks_mut(8) {
                c.copy_from_slice(&g.next().to_le_bytes());
            }
        }
    }
    b
}

#[inline(never)]
fn pipeline_call(set: u32, rng: &mut FixedRng, msg: &[u8], out: &mut [u8; 4627]) -> usize {
    match set {
        44 => {
            let s = fips204::ml_dsa_44::dudect_keygen_sign_with_rng(rng, msg).expect("dudect");
            out[..s.len()].copy_from_slice(&s);
            s.len()
        }
        65 => {
            let s = fips204::ml_dsa_65::dudect_keygen_sign_with_rng(rng, msg).expect("dudect");
            out[..s.len()].copy_from_slice(&s);
            s.len()
        }
        _ => {
            let s = fips204::ml_dsa_87::dudect_keygen_sign_with_rng(rng, msg).expect("dudect");
            out[..s.len()].copy_from_slice(&s);
            s.len()
        }
    }
}

fn trace_json(t: &Trace) -> Value { json!({"edge_hash": format!("{:016x}", t.edge_hash), "edge_count": t.edge_count, "mem_hash": format!("{:016x}", t.mem_hash), "mem_count": t.mem_count}) }

/// First index at which two event logs differ, described for a human.
fn first_divergence(a: &[(u8, u64)], b: &[(u8, u64)]) -> Value {
    let n = a.len().min(b.len());
    let idx = (0..n).find(|&i| a[i] != b[i]);
    match idx {
        None => json!({"note": "logs equal up to the shorter length", "len_a": a.len(), "len_b": b.len()}),
        Some(i) => {
            // last edge before the divergence locates the code
            let last_edge = (0..=i).rev().find(|&j| a[j].0 == 0).map(|j| a[j].1 as u32);
            let pc = last_edge.and_then(sancov_rt::pc_of_guard);
            json!({"index": i, "event_a": format!("{:?}", a[i]), "event_b": format!("{:?}", b[i]),
                   "last_common_edge_guard": last_edge, "last_common_edge_pc": pc.map(|p| format!("0x{p:x}")),
                   "kinds": "0=edge 1-5=load1/2/4/8/16 6-10=store"})
        }
    }
}

fn pipeline(args: &[String]) -> Value {
    let set: u32 = args[0].parse().unwrap();
    let lo: u64 = args[1].parse().unwrap();
    let hi: u64 = args[2].parse().unwrap();
    let seed: u64 = args[3].parse().unwrap();
    let msg = [0x42u8; 16];
    let mut out = [0u8; 4627];
    let mut rng = FixedRng { buf: [0u8; 64], pos: 0 };
    // warm-up (lazy initialisation inside dependencies, page faults) — trace discarded
    rng.buf = pipeline_input(seed, lo);
    rng.pos = 0;
    sancov_rt::open(0);
    let _ = pipeline_call(set, &mut rng, &msg, &mut out);
    let _ = sancov_rt::close();

    let mut traces: HashMap<Trace, (u64, u64)> = HashMap::new(); // trace -> (first input index, count)
    let mut sigs: HashSet<[u8; 8]> = HashSet::new();
    // optional extra RNG outputs (hex, one 64-byte script per line): e.g. seeds predicted to drive rare
    // events inside key generation
    let extras: Vec<[u8; 64]> = match args.get(5) {
        Some(path) => std::fs::read_to_string(path).unwrap_or_default().lines().filter(|l| l.len() == 128)
            .map(|l| { let v: Vec<u8> = (0..64).map(|i| u8::from_str_radix(&l[2 * i..2 * i + 2], 16).unwrap()).collect(); v.try_into().unwrap() }).collect(),
        None => Vec::new(),
    };
    let n_extra = extras.len() as u64;
    for i in lo..hi + n_extra {
        rng.buf = if i < hi { pipeline_input(seed, i) } else { extras[(i - hi) as usize] };
        rng.pos = 0;
        sancov_rt::open(0);
        let n = pipeline_call(set, &mut rng, &msg, &mut out);
        let t = sancov_rt::close();
        let e = traces.entry(t).or_insert((i, 0));
        e.1 += 1;
        let d = Sha256::digest(&out[..n]);
        let _ = sigs.insert(d[..8].try_into().unwrap());
    }
    let mut distinct: Vec<(Trace, (u64, u64))> = traces.into_iter().collect();
    distinct.sort_by_key(|x| x.1 .0);
    let mut divergence = Value::Null;
    if distinct.len() > 1 {
        let ia = distinct[0].1 .0;
        let ib = distinct[1].1 .0;
        let mut logs = Vec::new();
        for i in [ia, ib] {
            rng.buf = if i < hi { pipeline_input(seed, i) } else { extras[(i - hi) as usize] };
            rng.pos = 0;
            sancov_rt::open(8_000_000);
            let _ = pipeline_call(set, &mut rng, &msg, &mut out);
            let _ = sancov_rt::close();
            logs.push(sancov_rt::take_log());
        }
        divergence = first_divergence(&logs[0], &logs[1]);
        divergence["input_a"] = json!(hex(&if ia < hi { pipeline_input(seed, ia) } else { extras[(ia - hi) as usize] }));
        divergence["input_b"] = json!(hex(&if ib < hi { pipeline_input(seed, ib) } else { extras[(ib - hi) as usize] }));
    }
    json!({
        "stage": "pipeline", "set": set, "lo": lo, "hi": hi, "seed": seed, "guards": sancov_rt::guards(),
        "anchor_runtime_pc": format!("0x{:x}", pipeline_call as *const () as usize),
        "runs": hi - lo + n_extra, "extra_inputs": n_extra, "distinct_traces": distinct.len(), "distinct_signatures": sigs.len(),
        "traces": distinct.iter().take(4).map(|(t, (first, n))| { let mut v = trace_json(t); v["first_input_index"] = json!(first); v["runs"] = json!(n); v["first_input"] = json!(hex(&if *first < hi { pipeline_input(seed, *first) } else { extras[(*first - hi) as usize] })); v }).collect::<Vec<_>>(),
        "divergence": divergence,
    })
}

fn hex(b: &[u8]) -> String { b.iter().map(|x| format!("{x:02x}")).collect() }

// ------------------------------------------------------------------------------------------------
// kernels
// ------------------------------------------------------------------------------------------------

/// Fixed-address input buffers, refilled per variant before the window opens.
struct Bufs {
    p: [[i32; 256]; 8],
    a: [[[i32; 256]; 4]; 4],
    bytes: [u8; 64],
    out: [u8; 8192],
}

/// Fill `dst` with a variant of values in [lo, hi]: 0 all-min, 1 all-max, 2 alternating,
/// 3 single spike (max at a seeded slot over min), 4 boundary values, 5-7 special values (0, +-1, q, q+-1, (q-1)/2, gamma2 multiples, 2^12, ...) planted among random ones, >=8 seeded random.
fn fill(dst: &mut [i32; 256], lo: i64, hi: i64, variant: u64, g: &mut Sm) {
    let mid = (lo + hi) / 2;
    let spike = (g.next() % 256) as usize;
    for (i, d) in dst.iter_mut().enumerate() {
        let v = match variant {
            0 => lo,
            1 => hi,
            2 => if i % 2 == 0 { hi } else { lo },
            3 => if i == spike { hi } else { lo },
            4 => [lo, lo + 1, mid - 1, mid, mid + 1, hi - 1, hi, 0i64.clamp(lo, hi)][i % 8],
            // special values that arithmetic shortcuts tend to single out, clamped into the domain
            5 | 6 | 7 => {
                const SP: [i64; 24] = [0, 1, -1, 8_380_416, 8_380_417, 8_380_418, -8_380_416, -8_380_417, 4_190_208, 4_190_209, -4_190_208,
                    4096, -4095, 4095, 8192, 95_232, 190_464, 261_888, 523_776, -95_232, -261_888, 131_072, 524_288, 8_285_185];
                if (i + variant as usize) % 3 == 0 { SP[(i / 3 + variant as usize * 7) % 24].clamp(lo, hi) } else { g.range(lo, hi) }
            }
            _ => g.range(lo, hi),
        };
        *d = v as i32;
    }
}

type Kernel = (&'static str, fn(&mut Bufs, u64, &mut Sm), fn(&mut Bufs));

const G1: i64 = 1 << 19;
const G1_44: i64 = 1 << 17;
const G2_44: i32 = (Q - 1) / 88;
const G2_65: i32 = (Q - 1) / 32;

fn kernels() -> Vec<Kernel> {
    fn fill_all(b: &mut Bufs, lo: i64, hi: i64, v: u64, g: &mut Sm) {
        for i in 0..8 {
            fill(&mut b.p[i], lo, hi, v, g);
        }
    }
    vec![
        ("infinity_norm", |b, v, g| fill_all(b, -(Q as i64 - 1), Q as i64 - 1, v, g), |b| {
            let r = hk::infinity_norm::<4>(&[b.p[0], b.p[1], b.p[2], b.p[3]]);
            b.out[..4].copy_from_slice(&r.to_le_bytes());
        }),
        ("center_mod", |b, v, g| fill(&mut b.p[0], -2_143_289_343, 2_143_289_343, v, g), |b| {
            for i in 0..256 { b.p[1][i] = hk::center_mod(b.p[0][i]); }
        }),
        ("partial_reduce32", |b, v, g| fill(&mut b.p[0], -2_143_289_343, 2_143_289_343, v, g), |b| {
            for i in 0..256 { b.p[1][i] = hk::partial_reduce32(b.p[0][i]); }
        }),
        ("full_reduce32", |b, v, g| fill(&mut b.p[0], -2_143_289_343, 2_143_289_343, v, g), |b| {
            for i in 0..256 { b.p[1][i] = hk::full_reduce32(b.p[0][i]); }
        }),
        ("mont_reduce", |b, v, g| { fill(&mut b.p[0], -(Q as i64 - 1), Q as i64 - 1, v, g); fill(&mut b.p[1], -(1 << 31) + 1, (1 << 31) - 1, v.wrapping_add(1), g); }, |b| {
            for i in 0..256 { b.p[2][i] = hk::mont_reduce(i64::from(b.p[0][i]) * i64::from(b.p[1][i])); }
        }),
        ("partial_reduce64", |b, v, g| fill(&mut b.p[0], -67_058_538, 67_058_538, v, g), |b| {
            for i in 0..256 { b.p[1][i] = hk::partial_reduce64(i64::from(b.p[0][i]) << 32); }
        }),
        ("to_mont", |b, v, g| fill_all(b, -67_058_538, 67_058_538, v, g), |b| {
            let r = hk::to_mont::<4>(&[b.p[0], b.p[1], b.p[2], b.p[3]]);
            b.p[4] = r[0];
        }),
        ("ntt", |b, v, g| fill_all(b, -G1 + 1, G1, v, g), |b| {
            let r = hk::ntt::<2>(&[b.p[0], b.p[1]]);
            b.p[4] = r[0];
            b.p[5] = r[1];
        }),
        ("inv_ntt", |b, v, g| fill_all(b, -8 * (Q as i64), 8 * (Q as i64), v, g), |b| {
            let r = hk::inv_ntt::<2>(&[b.p[0], b.p[1]]);
            b.p[4] = r[0];
            b.p[5] = r[1];
        }),
        ("mat_vec_mul", |b, v, g| { fill_all(b, -8 * (Q as i64) + 1, 8 * (Q as i64) - 1, v, g); for r in 0..4 { for c in 0..4 { fill(&mut b.a[r][c], 0, Q as i64 - 1, 5, g); } } }, |b| {
            let r = hk::mat_vec_mul::<4, 4>(&b.a, &[b.p[0], b.p[1], b.p[2], b.p[3]]);
            b.p[4] = r[0];
            b.p[5] = r[3];
        }),
        ("power2round", |b, v, g| fill_all(b, 0, Q as i64 - 1, v, g), |b| {
            let (r1, r0) = hk::power2round::<2>(&[b.p[0], b.p[1]]);
            b.p[4] = r1[1];
            b.p[5] = r0[0];
        }),
        ("decompose_g2_44", |b, v, g| fill(&mut b.p[0], -(Q as i64) + 1, 2 * Q as i64, v, g), |b| {
            for i in 0..256 { let (r1, r0) = hk::decompose(G2_44, b.p[0][i]); b.p[1][i] = r1; b.p[2][i] = r0; b.p[3][i] = hk::high_bits(G2_44, b.p[0][i]) + hk::low_bits(G2_44, b.p[0][i]); }
        }),
        ("decompose_g2_65", |b, v, g| fill(&mut b.p[0], -(Q as i64) + 1, 2 * Q as i64, v, g), |b| {
            for i in 0..256 { let (r1, r0) = hk::decompose(G2_65, b.p[0][i]); b.p[1][i] = r1; b.p[2][i] = r0; b.p[3][i] = hk::high_bits(G2_65, b.p[0][i]) + hk::low_bits(G2_65, b.p[0][i]); }
        }),
        ("make_hint_g2_44", |b, v, g| { fill(&mut b.p[0], 1, Q as i64, v, g); fill(&mut b.p[1], -(Q as i64) + 1, Q as i64 - 1, v.wrapping_add(2), g); }, |b| {
            for i in 0..256 { b.p[2][i] = i32::from(hk::make_hint(G2_44, b.p[0][i], b.p[1][i])); }
        }),
        ("make_hint_g2_65", |b, v, g| { fill(&mut b.p[0], 1, Q as i64, v, g); fill(&mut b.p[1], -(Q as i64) + 1, Q as i64 - 1, v.wrapping_add(2), g); }, |b| {
            for i in 0..256 { b.p[2][i] = i32::from(hk::make_hint(G2_65, b.p[0][i], b.p[1][i])); }
        }),
        ("bit_pack_eta2", |b, v, g| fill(&mut b.p[0], -2, 2, v, g), |b| hk::bit_pack(&b.p[0], 2, 2, &mut b.out[..96])),
        ("bit_pack_eta4", |b, v, g| fill(&mut b.p[0], -4, 4, v, g), |b| hk::bit_pack(&b.p[0], 4, 4, &mut b.out[..128])),
        ("bit_pack_t0", |b, v, g| fill(&mut b.p[0], -4095, 4096, v, g), |b| hk::bit_pack(&b.p[0], 4095, 4096, &mut b.out[..416])),
        ("bit_pack_gamma1_17", |b, v, g| fill(&mut b.p[0], -G1_44 + 1, G1_44, v, g), |b| hk::bit_pack(&b.p[0], (G1_44 - 1) as i32, G1_44 as i32, &mut b.out[..576])),
        ("bit_pack_gamma1_19", |b, v, g| fill(&mut b.p[0], -G1 + 1, G1, v, g), |b| hk::bit_pack(&b.p[0], (G1 - 1) as i32, G1 as i32, &mut b.out[..640])),
        ("hint_bit_pack_ctest", |b, v, g| { for i in 0..4 { fill(&mut b.p[i], 0, 1, v.max(2), g); if v < 2 { b.p[i] = [0; 256]; } } }, |b| {
            hk::hint_bit_pack::<true, 4>(80, &[b.p[0], b.p[1], b.p[2], b.p[3]], &mut b.out[..84]);
        }),
        ("sig_encode_ctest", |b, v, g| { for i in 0..4 { fill(&mut b.p[i], -G1_44 + 1, G1_44, v, g); fill(&mut b.p[4 + i], 0, 1, v.max(2), g); } for x in b.bytes.iter_mut() { *x = g.next() as u8; } }, |b| {
            let c: [u8; 32] = b.bytes[..32].try_into().unwrap();
            let s = hk::sig_encode::<true, 4, 4, 32, 2420>(G1_44 as i32, 80, &c, &[b.p[0], b.p[1], b.p[2], b.p[3]], &[b.p[4], b.p[5], b.p[6], b.p[7]]);
            b.out[..2420].copy_from_slice(&s);
        }),
        ("expand_mask", |b, v, g| { for x in b.bytes.iter_mut() { *x = match v { 0 => 0, 1 => 0xFF, _ => g.next() as u8 }; } }, |b| {
            let r = hk::expand_mask::<4>(G1_44 as i32, &b.bytes, 8);
            b.p[4] = r[3];
        }),
        ("sample_in_ball_ctest", |b, v, g| { for x in b.bytes.iter_mut() { *x = match v { 0 => 0, 1 => 0xFF, _ => g.next() as u8 }; } }, |b| {
            b.p[4] = hk::sample_in_ball::<true>(39, &b.bytes[..32]);
        }),
        ("expand_s_ctest", |b, v, g| { for x in b.bytes.iter_mut() { *x = match v { 0 => 0, 1 => 0xFF, _ => g.next() as u8 }; } }, |b| {
            let (s1, s2) = hk::expand_s::<true, 4, 4>(2, &b.bytes);
            b.p[4] = s1[0];
            b.p[5] = s2[3];
        }),
        ("expand_a_ctest", |b, v, g| { for x in b.bytes.iter_mut() { *x = match v { 0 => 0, 1 => 0xFF, _ => g.next() as u8 }; } }, |b| {
            let a = hk::expand_a::<true, 4, 4>(b.bytes[..32].try_into().unwrap());
            b.p[4] = a[3][3];
        }),
    ]
}

#[inline(never)]
fn kernel_window(f: fn(&mut Bufs), b: &mut Bufs, log: usize) -> Trace {
    sancov_rt::open(log);
    f(b);
    sancov_rt::close()
}

fn kernels_stage(args: &[String]) -> Value {
    let seed: u64 = args[0].parse().unwrap();
    let variants: u64 = args[1].parse().unwrap();
    let mut b: Box<Bufs> = Box::new(Bufs { p: [[0; 256]; 8], a: [[[0; 256]; 4]; 4], bytes: [0; 64], out: [0; 8192] });
    let mut results = Vec::new();
    for (name, prep, f) in kernels() {
        let mut g = Sm(seed ^ Sha256::digest(name.as_bytes())[0] as u64);
        prep(&mut b, 9, &mut g);
        let _ = kernel_window(f, &mut b, 0); // warm-up
        let mut traces: HashMap<Trace, (u64, u64)> = HashMap::new();
        let mut inputs_seen: HashSet<[u8; 8]> = HashSet::new();
        for v in 0..variants {
            prep(&mut b, v, &mut g);
            let mut h = Sha256::new();
            for p in b.p.iter() {
                for c in p.iter() {
                    h.update(c.to_le_bytes());
                }
            }
            h.update(b.bytes);
            let _ = inputs_seen.insert(h.finalize()[..8].try_into().unwrap());
            let t = kernel_window(f, &mut b, 0);
            let e = traces.entry(t).or_insert((v, 0));
            e.1 += 1;
        }
        let mut distinct: Vec<(Trace, (u64, u64))> = traces.into_iter().collect();
        distinct.sort_by_key(|x| x.1 .0);
        let mut divergence = Value::Null;
        if distinct.len() > 1 {
            // replay the two first variants with logging (re-seed so the inputs repeat)
            let mut logs = Vec::new();
            for target in [distinct[0].1 .0, distinct[1].1 .0] {
                let mut g2 = Sm(seed ^ Sha256::digest(name.as_bytes())[0] as u64);
                prep(&mut b, 9, &mut g2);
                for v in 0..=target {
                    prep(&mut b, v, &mut g2);
                }
                let _ = kernel_window(f, &mut b, 2_000_000);
                logs.push(sancov_rt::take_log());
            }
            divergence = first_divergence(&logs[0], &logs[1]);
            divergence["variant_a"] = json!(distinct[0].1 .0);
            divergence["variant_b"] = json!(distinct[1].1 .0);
        }
        results.push(json!({"kernel": name, "variants": variants, "distinct_inputs": inputs_seen.len(), "distinct_traces": distinct.len(),
            "trace": trace_json(&distinct[0].0), "divergence": divergence}));
    }
    json!({"stage": "kernels", "seed": seed, "guards": sancov_rt::guards(), "anchor_runtime_pc": format!("0x{:x}", pipeline_call as *const () as usize), "kernels": results})
}

// ------------------------------------------------------------------------------------------------
// valgrind secret taint
// ------------------------------------------------------------------------------------------------

#[cfg(target_arch = "x86_64")]
#[inline(always)]
unsafe fn vg_request(default: u64, req: u64, a1: u64, a2: u64) -> u64 {
    let args: [u64; 6] = [req, a1, a2, 0, 0, 0];
    let mut res = default;
    core::arch::asm!(
        "rol rdi, 3", "rol rdi, 13", "rol rdi, 61", "rol rdi, 51", "xchg rbx, rbx",
        inout("rdx") res,
        in("rax") args.as_ptr(),
        options(nostack)
    );
    res
}
#[cfg(not(target_arch = "x86_64"))]
unsafe fn vg_request(default: u64, _req: u64, _a1: u64, _a2: u64) -> u64 { default }

fn running_on_valgrind() -> bool { unsafe { vg_request(0, 0x1001, 0, 0) != 0 } }
fn make_undefined<T>(x: &mut T) { unsafe { let _ = vg_request(0, 0x4d43_0001, x as *mut T as u64, std::mem::size_of::<T>() as u64); } }
fn make_defined<T>(x: &mut T) { unsafe { let _ = vg_request(0, 0x4d43_0002, x as *mut T as u64, std::mem::size_of::<T>() as u64); } }

fn taint_stage(args: &[String]) -> Value {
    let seed: u64 = args[0].parse().unwrap();
    let on_vg = running_on_valgrind();
    let mut b: Box<Bufs> = Box::new(Bufs { p: [[0; 256]; 8], a: [[[0; 256]; 4]; 4], bytes: [0; 64], out: [0; 8192] });
    let mut names = Vec::new();
    for (name, prep, f) in kernels() {
        // public-data samplers are excluded from taint (rho-derived / c~-derived inputs are public)
        // Not taint-tested (decided by trace equality instead): expand_a (public rho), expand_s (rejection
        // sampling of rho'-derived bytes: branches on the sampled byte whose outcome CTEST makes constant),
        // expand_mask (bit_unpack's range check branches on each coefficient; for gamma1 a power of two
        // the outcome is always "in range"). memcheck flags a branch on tainted data even when its
        // outcome cannot vary.
        if name == "expand_a_ctest" || name == "expand_s_ctest" || name == "expand_mask" {
            continue;
        }
        let mut g = Sm(seed ^ Sha256::digest(name.as_bytes())[1] as u64);
        for v in [0u64, 1, 3, 5, 6] {
            prep(&mut b, v, &mut g);
            // matrix A is public; everything else the kernel reads is treated as secret
            make_undefined(&mut b.p);
            make_undefined(&mut b.bytes);
            eprintln!("TAINT-KERNEL-BEGIN {name} variant {v}");
            f(&mut b);
            eprintln!("TAINT-KERNEL-END {name}");
            make_defined(&mut b.p);
            make_defined(&mut b.bytes);
            make_defined(&mut b.out);
        }
        names.push(name);
    }
    json!({"stage": "taint", "running_on_valgrind": on_vg, "kernels": names})
}

/// Whole pipeline under memcheck with the RNG output (xi || rnd) marked undefined: every branch or
/// address that depends on it is reported by valgrind; the driver compares the reporting sites with
/// the allow-list of public-data sites (values derived from rho, c~ and the final signature).
fn taint_pipeline(args: &[String]) -> Value {
    let set: u32 = args[0].parse().unwrap();
    let seed: u64 = args[1].parse().unwrap();
    let n: u64 = args[2].parse().unwrap();
    let mut out = [0u8; 4627];
    let mut rng = FixedRng { buf: [0u8; 64], pos: 0 };
    for i in 0..n {
        rng.buf = pipeline_input(seed, 2000 + i);
        rng.pos = 0;
        make_undefined(&mut rng.buf);
        eprintln!("TAINT-PIPELINE-BEGIN {set} {i}");
        let len = pipeline_call(set, &mut rng, &[0x42u8; 16], &mut out);
        eprintln!("TAINT-PIPELINE-END {set} {i} {len}");
        make_defined(&mut out);
        make_defined(&mut rng.buf);
    }
    json!({"stage": "taintpipe", "set": set, "runs": n, "running_on_valgrind": running_on_valgrind()})
}

fn main() {
    let args: Vec<String> = std::env::args().collect();
    if args.len() < 2 {
        eprintln!("usage: ct pipeline|kernels|taint|one ...");
        std::process::exit(2);
    }
    let (val, out): (Value, Option<&String>) = match args[1].as_str() {
        "pipeline" => (pipeline(&args[2..]), args.get(6)),
        "kernels" => (kernels_stage(&args[2..4]), args.get(4)),
        "taint" => (taint_stage(&args[2..3]), args.get(3)),
        "taintpipe" => (taint_pipeline(&args[2..5]), args.get(5)),
        "one" => {
            let set: u32 = args[2].parse().unwrap();
            let bytes: Vec<u8> = (0..64).map(|i| u8::from_str_radix(&args[3][2 * i..2 * i + 2], 16).unwrap()).collect();
            let mut rng = FixedRng { buf: bytes.try_into().unwrap(), pos: 0 };
            let mut out = [0u8; 4627];
            let n = pipeline_call(set, &mut rng, &[0x42u8; 16], &mut out);
            (json!({"stage": "one", "sig_sha256": hex(&Sha256::digest(&out[..n]))}), None)
        }
        other => {
            eprintln!("unknown stage {other}");
            std::process::exit(2);
        }
    };
    let text = serde_json::to_string_pretty(&val).unwrap();
    match out {
        Some(p) => std::fs::write(p, text).expect("write"),
        None => println!("{text}"),
    }
}
