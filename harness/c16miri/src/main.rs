//! C16 under Miri: drop key objects in place and read their storage back. Miri checks that the
//! harness's raw-pointer reads are defined (no padding, no uninitialised bytes, no aliasing
//! violation) and interprets zeroize's volatile writes. Usage: c16miri <44|65|87>
use fips204::traits::{KeyGen, SerDes, Signer};
use std::mem::{size_of, MaybeUninit};

fn probe<T, F: FnOnce() -> T>(name: &str, make: F, heap: bool) -> bool {
    let size = size_of::<T>();
    let count = |p: *const u8| (0..size).filter(|&i| unsafe { std::ptr::read_volatile(p.add(i)) } != 0).count();
    let (before, after) = if heap {
        let mut slot: Box<MaybeUninit<T>> = Box::new(MaybeUninit::uninit());
        let _ = slot.write(make());
        let p: *mut T = slot.as_mut_ptr();
        let b = count(p.cast());
        unsafe { std::ptr::drop_in_place(p) };
        (b, count(p.cast()))
    } else {
        let mut slot: MaybeUninit<T> = MaybeUninit::uninit();
        let _ = slot.write(make());
        let p: *mut T = slot.as_mut_ptr();
        let b = count(p.cast());
        unsafe { std::ptr::drop_in_place(p) };
        (b, count(p.cast()))
    };
    println!("C16MIRI probe {name} heap={heap} size={size} nonzero_before={before} nonzero_after={after}");
    before * 4 >= size && after == 0
}

macro_rules! run {
    ($m:ident) => {{
        let xi = [0x5Au8; 32];
        let (pk, sk) = fips204::$m::KG::keygen_from_seed(&xi);
        let skb = sk.clone().into_bytes();
        let mut ok = true;
        ok &= probe("PrivateKey/clone", || sk.clone(), false);
        ok &= probe("PublicKey/clone", || pk.clone(), true);
        ok &= probe("PublicKey/get_public_key", || sk.get_public_key(), false);
        ok &= probe("PrivateKey/try_from_bytes", || fips204::$m::PrivateKey::try_from_bytes(skb).unwrap(), true);
        ok
    }};
}

fn main() {
    let set = std::env::args().nth(1).unwrap_or_else(|| "44".into());
    let ok = match set.as_str() {
        "44" => run!(ml_dsa_44),
        "65" => run!(ml_dsa_65),
        _ => run!(ml_dsa_87),
    };
    println!("C16MIRI {} set={set}", if ok { "ok" } else { "VIOLATION" });
    std::process::exit(if ok { 0 } else { 1 });
}
