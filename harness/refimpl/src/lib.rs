//! Spec-literal reference model of FIPS 204 (August 2024), Algorithms 1-49.
//!
//! Written from the standard's pseudocode. Shares no code and no representation
//! tricks with the crate under test: plain `i64` arithmetic reduced with
//! `rem_euclid(q)` after every operation, bit-vector conversions exactly as
//! Algorithms 9-13, keys and signatures handled as bytes. SHAKE/SHA-2 come from
//! the `sha3`/`sha2` crates (trusted base).
//!
//! It is instrumented: a thread-local `Events` record counts rare paths taken.

use sha2::{Digest, Sha256, Sha512};
use sha3::digest::{ExtendableOutput, Update, XofReader};
use sha3::{Shake128, Shake256};
use std::cell::RefCell;
use std::sync::OnceLock;

pub const Q: i64 = 8_380_417;
pub const D: u32 = 13;
pub const ZETA: i64 = 1753;
pub const N: usize = 256;

pub type Poly = [i64; N];
pub const ZERO: Poly = [0i64; N];

#[derive(Debug, Clone, Copy, PartialEq, Eq)]
pub struct Params {
    pub name: &'static str,
    pub set: u32,
    pub k: usize,
    pub l: usize,
    pub eta: i64,
    pub tau: usize,
    pub lambda: usize,
    pub gamma1: i64,
    pub gamma2: i64,
    pub omega: usize,
    pub beta: i64,
    pub pk_len: usize,
    pub sk_len: usize,
    pub sig_len: usize,
}

pub const P44: Params = Params {
    name: "ML-DSA-44", set: 44, k: 4, l: 4, eta: 2, tau: 39, lambda: 128, gamma1: 1 << 17,
    gamma2: (Q - 1) / 88, omega: 80, beta: 78, pk_len: 1312, sk_len: 2560, sig_len: 2420,
};
pub const P65: Params = Params {
    name: "ML-DSA-65", set: 65, k: 6, l: 5, eta: 4, tau: 49, lambda: 192, gamma1: 1 << 19,
    gamma2: (Q - 1) / 32, omega: 55, beta: 196, pk_len: 1952, sk_len: 4032, sig_len: 3309,
};
pub const P87: Params = Params {
    name: "ML-DSA-87", set: 87, k: 8, l: 7, eta: 2, tau: 60, lambda: 256, gamma1: 1 << 19,
    gamma2: (Q - 1) / 32, omega: 75, beta: 120, pk_len: 2592, sk_len: 4896, sig_len: 4627,
};

pub fn params(set: u32) -> &'static Params {
    match set {
        44 => &P44,
        65 => &P65,
        87 => &P87,
        _ => panic!("unknown parameter set {set}"),
    }
}

// ---------------------------------------------------------------------------------------------
// Instrumentation
// ---------------------------------------------------------------------------------------------

#[derive(Debug, Clone, Default, PartialEq, Eq)]
pub struct Events {
    // samplers
    pub three_byte_samples: u64,
    pub three_byte_rejections: u64,
    pub three_byte_eq_q: u64,
    pub three_byte_eq_qm1: u64,
    pub three_byte_eq_qp1: u64,
    pub half_byte_samples: u64,
    pub half_byte_rejections: u64,
    pub sib_rejections: u64,
    pub rbp_max_bytes: u64,     // most bytes squeezed by one RejBoundedPoly call
    pub rnp_max_bytes: u64,     // most bytes squeezed by one RejNTTPoly call
    pub rnp_max_reject_run: u64, // longest run of consecutive three-byte rejections in one RejNTTPoly call
    // rounding
    pub t_wrap_high: u64,       // keygen: A*s1 + s2 >= q before reduction
    pub t_wrap_low: u64,        // keygen: A*s1 + s2 < 0 before reduction
    pub t1_max: u64,            // keygen: t1 coefficient == 1023
    pub p2r_ties: u64,          // r0 == 2^(d-1)
    pub decompose_corner: u64,  // r+ - r0 == q-1
    pub usehint_wrap: u64,      // (r1+1) mod m == 0 or (r1-1) mod m == m-1
    pub usehint_h1: u64,
    // signing loop
    pub sign_iterations: u64,
    pub rej_z: u64,
    pub rej_r0: u64,
    pub rej_ct0: u64,
    pub rej_hint: u64,
    pub final_z_norm: i64,
    pub final_r0_norm: i64,
    pub final_ct0_norm: i64,
    pub final_hint_weight: u64,
    /// iterations rejected by exactly one comparison sitting exactly on its bound (every other test of that
    /// iteration passes): an off-by-one in that comparison changes which candidate is emitted
    pub lone_exact_z: u64,
    pub lone_exact_r0: u64,
    pub lone_exact_ct0_pos: u64, // ||c t0|| = gamma2 attained at +gamma2 (possibly also at -gamma2)
    pub lone_exact_ct0_neg: u64, // ||c t0|| = gamma2 attained only at -gamma2
    pub lone_exact_hint: u64,    // hint weight = omega + 1
    /// accepted candidate sitting exactly one below a bound
    pub accept_ct0_gamma2_minus_1: u64,
    pub accept_hint_omega: u64,
}

thread_local! {
    static EV: RefCell<Events> = RefCell::new(Events::default());
    /// Mirror of the crate's constant-time TEST mode for the two rejection samplers (used only to
    /// predict which RNG outputs drive rare events inside dudect_keygen_sign_with_rng; never an oracle
    /// for FIPS 204 behaviour).
    static CTEST: std::cell::Cell<bool> = const { std::cell::Cell::new(false) };
}

pub fn set_ctest(on: bool) { CTEST.with(|c| c.set(on)); }
fn ctest() -> bool { CTEST.with(|c| c.get()) }

pub fn events_reset() { EV.with(|e| *e.borrow_mut() = Events::default()); }
pub fn events_take() -> Events { EV.with(|e| std::mem::take(&mut *e.borrow_mut())) }
fn ev<F: FnOnce(&mut Events)>(f: F) { EV.with(|e| f(&mut e.borrow_mut())); }

// ---------------------------------------------------------------------------------------------
// Hash functions (section 3.7)
// ---------------------------------------------------------------------------------------------

pub fn h(parts: &[&[u8]], out_len: usize) -> Vec<u8> {
    let mut hasher = Shake256::default();
    for p in parts {
        hasher.update(p);
    }
    let mut out = vec![0u8; out_len];
    hasher.finalize_xof().read(&mut out);
    out
}

pub struct Xof(Box<dyn XofReader>);
impl Xof {
    pub fn h(parts: &[&[u8]]) -> Xof {
        let mut hasher = Shake256::default();
        for p in parts {
            hasher.update(p);
        }
        Xof(Box::new(hasher.finalize_xof()))
    }
    pub fn g(parts: &[&[u8]]) -> Xof {
        let mut hasher = Shake128::default();
        for p in parts {
            hasher.update(p);
        }
        Xof(Box::new(hasher.finalize_xof()))
    }
    pub fn squeeze(&mut self, n: usize) -> Vec<u8> {
        let mut out = vec![0u8; n];
        self.0.read(&mut out);
        out
    }
}

// ---------------------------------------------------------------------------------------------
// Algorithms 9-13: conversions
// ---------------------------------------------------------------------------------------------

pub fn bitlen(x: i64) -> usize {
    assert!(x > 0);
    (64 - (x as u64).leading_zeros()) as usize
}

/// Algorithm 9
pub fn integer_to_bits(x: i64, alpha: usize) -> Vec<u8> {
    assert!(x >= 0);
    let mut xp = x;
    let mut y = vec![0u8; alpha];
    for yi in y.iter_mut() {
        *yi = (xp % 2) as u8;
        xp /= 2;
    }
    y
}

/// Algorithm 10
pub fn bits_to_integer(y: &[u8]) -> i64 {
    let alpha = y.len();
    let mut x = 0i64;
    for i in 1..=alpha {
        x = 2 * x + i64::from(y[alpha - i]);
    }
    x
}

/// Algorithm 11
pub fn integer_to_bytes(x: i64, alpha: usize) -> Vec<u8> {
    let mut xp = x;
    let mut y = vec![0u8; alpha];
    for yi in y.iter_mut() {
        *yi = (xp % 256) as u8;
        xp /= 256;
    }
    y
}

/// Algorithm 12
pub fn bits_to_bytes(y: &[u8]) -> Vec<u8> {
    let alpha = y.len();
    let mut z = vec![0u8; (alpha + 7) / 8];
    for i in 0..alpha {
        z[i / 8] += y[i] << (i % 8);
    }
    z
}

/// Algorithm 13
pub fn bytes_to_bits(z: &[u8]) -> Vec<u8> {
    let mut y = vec![0u8; 8 * z.len()];
    for i in 0..z.len() {
        let mut zi = z[i];
        for j in 0..8 {
            y[8 * i + j] = zi % 2;
            zi /= 2;
        }
    }
    y
}

/// Algorithm 14
pub fn coeff_from_three_bytes(b0: u8, b1: u8, b2: u8) -> Option<i64> {
    let mut b2p = i64::from(b2);
    if b2p > 127 {
        b2p -= 128;
    }
    if ctest() {
        b2p &= 0x3F;
    }
    let z = 65536 * b2p + 256 * i64::from(b1) + i64::from(b0);
    ev(|e| {
        e.three_byte_samples += 1;
        if z == Q {
            e.three_byte_eq_q += 1;
        }
        if z == Q - 1 {
            e.three_byte_eq_qm1 += 1;
        }
        if z == Q + 1 {
            e.three_byte_eq_qp1 += 1;
        }
    });
    if z < Q {
        Some(z)
    } else {
        ev(|e| e.three_byte_rejections += 1);
        None
    }
}

/// Algorithm 15
pub fn coeff_from_half_byte(b: u8, eta: i64) -> Option<i64> {
    assert!(b < 16);
    ev(|e| e.half_byte_samples += 1);
    let b = i64::from(if ctest() { b & 7 } else { b });
    if eta == 2 && b < 15 {
        return Some(2 - (b % 5));
    }
    if eta == 4 && b < 9 {
        return Some(4 - b);
    }
    ev(|e| e.half_byte_rejections += 1);
    None
}

/// Algorithm 16
pub fn simple_bit_pack(w: &Poly, b: i64) -> Vec<u8> {
    let mut z: Vec<u8> = Vec::new();
    for i in 0..256 {
        z.extend(integer_to_bits(w[i], bitlen(b)));
    }
    bits_to_bytes(&z)
}

/// Algorithm 17
pub fn bit_pack(w: &Poly, a: i64, b: i64) -> Vec<u8> {
    let mut z: Vec<u8> = Vec::new();
    for i in 0..256 {
        z.extend(integer_to_bits(b - w[i], bitlen(a + b)));
    }
    bits_to_bytes(&z)
}

/// Algorithm 18
pub fn simple_bit_unpack(v: &[u8], b: i64) -> Poly {
    let c = bitlen(b);
    assert_eq!(v.len(), 32 * c);
    let z = bytes_to_bits(v);
    let mut w = ZERO;
    for i in 0..256 {
        w[i] = bits_to_integer(&z[i * c..i * c + c]);
    }
    w
}

/// Algorithm 19
pub fn bit_unpack(v: &[u8], a: i64, b: i64) -> Poly {
    let c = bitlen(a + b);
    assert_eq!(v.len(), 32 * c);
    let z = bytes_to_bits(v);
    let mut w = ZERO;
    for i in 0..256 {
        w[i] = b - bits_to_integer(&z[i * c..i * c + c]);
    }
    w
}

/// Algorithm 20 (generic in k and omega so that reduced parameters can be explored)
pub fn hint_bit_pack(h: &[Poly], omega: usize) -> Vec<u8> {
    let k = h.len();
    let mut y = vec![0u8; omega + k];
    let mut index = 0usize;
    for i in 0..k {
        for j in 0..256 {
            if h[i][j] != 0 {
                y[index] = j as u8;
                index += 1;
            }
        }
        y[omega + i] = index as u8;
    }
    y
}

/// Algorithm 21
pub fn hint_bit_unpack(y: &[u8], k: usize, omega: usize) -> Option<Vec<Poly>> {
    assert_eq!(y.len(), omega + k);
    let mut h = vec![ZERO; k];
    let mut index = 0usize;
    for i in 0..k {
        let yi = usize::from(y[omega + i]);
        if yi < index || yi > omega {
            return None;
        }
        let first = index;
        while index < yi {
            if index > first && y[index - 1] >= y[index] {
                return None;
            }
            h[i][usize::from(y[index])] = 1;
            index += 1;
        }
    }
    for i in index..omega {
        if y[i] != 0 {
            return None;
        }
    }
    Some(h)
}

// ---------------------------------------------------------------------------------------------
// Algorithms 22-28: encodings
// ---------------------------------------------------------------------------------------------

/// Algorithm 22
pub fn pk_encode(rho: &[u8], t1: &[Poly]) -> Vec<u8> {
    let mut pk = rho.to_vec();
    let b = (1i64 << (bitlen(Q - 1) - D as usize)) - 1;
    for t in t1 {
        pk.extend(simple_bit_pack(t, b));
    }
    pk
}

/// Algorithm 23
pub fn pk_decode(p: &Params, pk: &[u8]) -> (Vec<u8>, Vec<Poly>) {
    assert_eq!(pk.len(), p.pk_len);
    let rho = pk[0..32].to_vec();
    let step = 32 * (bitlen(Q - 1) - D as usize);
    let b = (1i64 << (bitlen(Q - 1) - D as usize)) - 1;
    let mut t1 = Vec::new();
    for i in 0..p.k {
        t1.push(simple_bit_unpack(&pk[32 + i * step..32 + (i + 1) * step], b));
    }
    (rho, t1)
}

/// Algorithm 24
pub fn sk_encode(
    p: &Params, rho: &[u8], key: &[u8], tr: &[u8], s1: &[Poly], s2: &[Poly], t0: &[Poly],
) -> Vec<u8> {
    let mut sk = Vec::new();
    sk.extend_from_slice(rho);
    sk.extend_from_slice(key);
    sk.extend_from_slice(tr);
    for s in s1 {
        sk.extend(bit_pack(s, p.eta, p.eta));
    }
    for s in s2 {
        sk.extend(bit_pack(s, p.eta, p.eta));
    }
    for t in t0 {
        sk.extend(bit_pack(t, (1 << (D - 1)) - 1, 1 << (D - 1)));
    }
    sk
}

pub struct SkParts {
    pub rho: Vec<u8>,
    pub key: Vec<u8>,
    pub tr: Vec<u8>,
    pub s1: Vec<Poly>,
    pub s2: Vec<Poly>,
    pub t0: Vec<Poly>,
}

/// Algorithm 25
pub fn sk_decode(p: &Params, sk: &[u8]) -> SkParts {
    assert_eq!(sk.len(), p.sk_len);
    let rho = sk[0..32].to_vec();
    let key = sk[32..64].to_vec();
    let tr = sk[64..128].to_vec();
    let es = 32 * bitlen(2 * p.eta);
    let mut off = 128;
    let mut s1 = Vec::new();
    for _ in 0..p.l {
        s1.push(bit_unpack(&sk[off..off + es], p.eta, p.eta));
        off += es;
    }
    let mut s2 = Vec::new();
    for _ in 0..p.k {
        s2.push(bit_unpack(&sk[off..off + es], p.eta, p.eta));
        off += es;
    }
    let ts = 32 * D as usize;
    let mut t0 = Vec::new();
    for _ in 0..p.k {
        t0.push(bit_unpack(&sk[off..off + ts], (1 << (D - 1)) - 1, 1 << (D - 1)));
        off += ts;
    }
    assert_eq!(off, sk.len());
    SkParts { rho, key, tr, s1, s2, t0 }
}

/// True iff every s1/s2 coefficient of the encoding lies in [-eta, eta] (the condition the
/// standard says skDecode's caller must be able to rely on for well-formed input).
pub fn sk_fields_in_range(p: &Params, sk: &[u8]) -> bool {
    let parts = sk_decode(p, sk);
    parts.s1.iter().chain(parts.s2.iter()).all(|poly| poly.iter().all(|&c| c >= -p.eta && c <= p.eta))
}

/// Algorithm 26
pub fn sig_encode(p: &Params, c_tilde: &[u8], z: &[Poly], hint: &[Poly]) -> Vec<u8> {
    let mut sigma = c_tilde.to_vec();
    for zi in z {
        sigma.extend(bit_pack(zi, p.gamma1 - 1, p.gamma1));
    }
    sigma.extend(hint_bit_pack(hint, p.omega));
    sigma
}

/// Algorithm 27
pub fn sig_decode(p: &Params, sigma: &[u8]) -> (Vec<u8>, Vec<Poly>, Option<Vec<Poly>>) {
    assert_eq!(sigma.len(), p.sig_len);
    let cl = p.lambda / 4;
    let c_tilde = sigma[0..cl].to_vec();
    let step = 32 * (1 + bitlen(p.gamma1 - 1));
    let mut z = Vec::new();
    for i in 0..p.l {
        z.push(bit_unpack(&sigma[cl + i * step..cl + (i + 1) * step], p.gamma1 - 1, p.gamma1));
    }
    let hint = hint_bit_unpack(&sigma[cl + p.l * step..], p.k, p.omega);
    (c_tilde, z, hint)
}

/// Algorithm 28
pub fn w1_encode(p: &Params, w1: &[Poly]) -> Vec<u8> {
    let mut out = Vec::new();
    for w in w1 {
        out.extend(simple_bit_pack(w, (Q - 1) / (2 * p.gamma2) - 1));
    }
    out
}

// ---------------------------------------------------------------------------------------------
// Algorithms 29-34: sampling
// ---------------------------------------------------------------------------------------------

/// Algorithm 29
pub fn sample_in_ball(rho: &[u8], tau: usize) -> Poly {
    let mut c = ZERO;
    let mut ctx = Xof::h(&[rho]);
    let s = ctx.squeeze(8);
    let hbits = bytes_to_bits(&s);
    for i in (256 - tau)..=255 {
        let mut j = usize::from(ctx.squeeze(1)[0]);
        while j > i {
            ev(|e| e.sib_rejections += 1);
            j = usize::from(ctx.squeeze(1)[0]);
        }
        c[i] = c[j];
        c[j] = if hbits[i + tau - 256] == 1 { -1 } else { 1 };
    }
    c
}

/// Algorithm 30
pub fn rej_ntt_poly(rho: &[u8]) -> Poly {
    assert_eq!(rho.len(), 34);
    let mut a = ZERO;
    let mut j = 0;
    let mut ctx = Xof::g(&[rho]);
    let mut used = 0u64;
    let mut run = 0u64;
    let mut max_run = 0u64;
    while j < 256 {
        let s = ctx.squeeze(3);
        used += 3;
        if let Some(v) = coeff_from_three_bytes(s[0], s[1], s[2]) {
            a[j] = v;
            j += 1;
            run = 0;
        } else {
            run += 1;
            max_run = max_run.max(run);
        }
    }
    ev(|e| {
        e.rnp_max_bytes = e.rnp_max_bytes.max(used);
        e.rnp_max_reject_run = e.rnp_max_reject_run.max(max_run);
    });
    a
}

/// Algorithm 31
pub fn rej_bounded_poly(rho: &[u8], eta: i64) -> Poly {
    assert_eq!(rho.len(), 66);
    let mut a = ZERO;
    let mut j = 0;
    let mut ctx = Xof::h(&[rho]);
    let mut used = 0u64;
    while j < 256 {
        let z = ctx.squeeze(1)[0];
        used += 1;
        let z0 = coeff_from_half_byte(z % 16, eta);
        let z1 = coeff_from_half_byte(z / 16, eta);
        if let Some(v) = z0 {
            a[j] = v;
            j += 1;
        }
        if let Some(v) = z1 {
            if j < 256 {
                a[j] = v;
                j += 1;
            }
        }
    }
    ev(|e| e.rbp_max_bytes = e.rbp_max_bytes.max(used));
    a
}

/// Algorithm 32: returns A_hat[r][s]
pub fn expand_a(p: &Params, rho: &[u8]) -> Vec<Vec<Poly>> {
    let mut a = Vec::new();
    for r in 0..p.k {
        let mut row = Vec::new();
        for s in 0..p.l {
            let mut rp = rho.to_vec();
            rp.extend(integer_to_bytes(s as i64, 1));
            rp.extend(integer_to_bytes(r as i64, 1));
            row.push(rej_ntt_poly(&rp));
        }
        a.push(row);
    }
    a
}

/// Algorithm 33
pub fn expand_s(p: &Params, rho: &[u8]) -> (Vec<Poly>, Vec<Poly>) {
    assert_eq!(rho.len(), 64);
    let mut s1 = Vec::new();
    for r in 0..p.l {
        let mut rp = rho.to_vec();
        rp.extend(integer_to_bytes(r as i64, 2));
        s1.push(rej_bounded_poly(&rp, p.eta));
    }
    let mut s2 = Vec::new();
    for r in 0..p.k {
        let mut rp = rho.to_vec();
        rp.extend(integer_to_bytes((r + p.l) as i64, 2));
        s2.push(rej_bounded_poly(&rp, p.eta));
    }
    (s1, s2)
}

/// Algorithm 34
pub fn expand_mask(p: &Params, rho: &[u8], mu: i64) -> Vec<Poly> {
    assert_eq!(rho.len(), 64);
    let c = 1 + bitlen(p.gamma1 - 1);
    let mut y = Vec::new();
    for r in 0..p.l {
        let mut rp = rho.to_vec();
        rp.extend(integer_to_bytes(mu + r as i64, 2));
        let v = h(&[&rp], 32 * c);
        y.push(bit_unpack(&v, p.gamma1 - 1, p.gamma1));
    }
    y
}

// ---------------------------------------------------------------------------------------------
// Algorithms 35-40: high/low bits and hints
// ---------------------------------------------------------------------------------------------

pub fn modq(x: i64) -> i64 { x.rem_euclid(Q) }

/// m mod+- alpha: unique m' in (-alpha/2, alpha/2] congruent to m
pub fn mod_pm(m: i64, alpha: i64) -> i64 {
    let r = m.rem_euclid(alpha);
    // -alpha/2 < r' <= alpha/2   (ceil/floor handled with doubled comparison)
    if 2 * r > alpha {
        r - alpha
    } else {
        r
    }
}

/// Algorithm 35
pub fn power2round(r: i64) -> (i64, i64) {
    let rp = modq(r);
    let r0 = mod_pm(rp, 1 << D);
    if r0 == 1 << (D - 1) {
        ev(|e| e.p2r_ties += 1);
    }
    ((rp - r0) / (1 << D), r0)
}

/// Algorithm 36
pub fn decompose(gamma2: i64, r: i64) -> (i64, i64) {
    let rp = modq(r);
    let mut r0 = mod_pm(rp, 2 * gamma2);
    let r1;
    if rp - r0 == Q - 1 {
        ev(|e| e.decompose_corner += 1);
        r1 = 0;
        r0 -= 1;
    } else {
        r1 = (rp - r0) / (2 * gamma2);
    }
    (r1, r0)
}

/// Algorithm 37
pub fn high_bits(gamma2: i64, r: i64) -> i64 { decompose(gamma2, r).0 }

/// Algorithm 38
pub fn low_bits(gamma2: i64, r: i64) -> i64 { decompose(gamma2, r).1 }

/// Algorithm 39
pub fn make_hint(gamma2: i64, z: i64, r: i64) -> bool {
    let r1 = high_bits(gamma2, r);
    let v1 = high_bits(gamma2, r + z);
    r1 != v1
}

/// Algorithm 40
pub fn use_hint(gamma2: i64, hbit: i64, r: i64) -> i64 {
    let m = (Q - 1) / (2 * gamma2);
    let (r1, r0) = decompose(gamma2, r);
    if hbit == 1 {
        ev(|e| e.usehint_h1 += 1);
    }
    if hbit == 1 && r0 > 0 {
        let v = (r1 + 1).rem_euclid(m);
        if v == 0 {
            ev(|e| e.usehint_wrap += 1);
        }
        return v;
    }
    if hbit == 1 && r0 <= 0 {
        let v = (r1 - 1).rem_euclid(m);
        if v == m - 1 {
            ev(|e| e.usehint_wrap += 1);
        }
        return v;
    }
    r1
}

// ---------------------------------------------------------------------------------------------
// Algorithms 41-48: NTT and arithmetic
// ---------------------------------------------------------------------------------------------

pub fn modpow(mut b: i64, mut e: u64, m: i64) -> i64 {
    let mut r = 1i64;
    b = b.rem_euclid(m);
    while e > 0 {
        if e & 1 == 1 {
            r = (r as i128 * b as i128 % m as i128) as i64;
        }
        b = (b as i128 * b as i128 % m as i128) as i64;
        e >>= 1;
    }
    r
}

/// Algorithm 43
pub fn bitrev8(m: usize) -> usize {
    let b = integer_to_bits(m as i64, 8);
    let mut brev = vec![0u8; 8];
    for i in 0..8 {
        brev[i] = b[7 - i];
    }
    bits_to_integer(&brev) as usize
}

/// zetas[m] = zeta^{BitRev8(m)} mod q
pub fn zetas() -> &'static [i64; 256] {
    static Z: OnceLock<[i64; 256]> = OnceLock::new();
    Z.get_or_init(|| {
        let mut z = [0i64; 256];
        for (m, zm) in z.iter_mut().enumerate() {
            *zm = modpow(ZETA, bitrev8(m) as u64, Q);
        }
        z
    })
}

/// Algorithm 41
pub fn ntt(w: &Poly) -> Poly {
    let mut wh = *w;
    for x in wh.iter_mut() {
        *x = modq(*x);
    }
    let z = zetas();
    let mut m = 0;
    let mut len = 128;
    while len >= 1 {
        let mut start = 0;
        while start < 256 {
            m += 1;
            let zeta = z[m];
            for j in start..start + len {
                let t = modq(zeta * wh[j + len]);
                wh[j + len] = modq(wh[j] - t);
                wh[j] = modq(wh[j] + t);
            }
            start += 2 * len;
        }
        len /= 2;
    }
    wh
}

/// Algorithm 42
pub fn ntt_inv(wh: &Poly) -> Poly {
    let mut w = *wh;
    for x in w.iter_mut() {
        *x = modq(*x);
    }
    let z = zetas();
    let mut m = 256;
    let mut len = 1;
    while len < 256 {
        let mut start = 0;
        while start < 256 {
            m -= 1;
            let zeta = modq(-z[m]);
            for j in start..start + len {
                let t = w[j];
                w[j] = modq(t + w[j + len]);
                w[j + len] = modq(t - w[j + len]);
                w[j + len] = modq(zeta * w[j + len]);
            }
            start += 2 * len;
        }
        len *= 2;
    }
    let f = 8_347_681i64;
    for x in w.iter_mut() {
        *x = modq(f * *x);
    }
    w
}

/// Algorithm 44
pub fn add_ntt(a: &Poly, b: &Poly) -> Poly { core::array::from_fn(|i| modq(a[i] + b[i])) }
pub fn sub_poly(a: &Poly, b: &Poly) -> Poly { core::array::from_fn(|i| modq(a[i] - b[i])) }

/// Algorithm 45
pub fn multiply_ntt(a: &Poly, b: &Poly) -> Poly { core::array::from_fn(|i| modq(a[i] * b[i])) }

/// Algorithm 48
pub fn matrix_vector_ntt(m: &[Vec<Poly>], v: &[Poly]) -> Vec<Poly> {
    let mut w = Vec::new();
    for row in m {
        let mut acc = ZERO;
        for (a, b) in row.iter().zip(v.iter()) {
            acc = add_ntt(&acc, &multiply_ntt(a, b));
        }
        w.push(acc);
    }
    w
}

/// O(n^2) negacyclic product in Z_q[X]/(X^256+1); independent of the NTT above.
pub fn schoolbook_mul(a: &Poly, b: &Poly) -> Poly {
    let mut acc = [0i128; 256];
    for i in 0..256 {
        if a[i] == 0 {
            continue;
        }
        for j in 0..256 {
            let prod = a[i] as i128 * b[j] as i128;
            if i + j < 256 {
                acc[i + j] += prod;
            } else {
                acc[i + j - 256] -= prod;
            }
        }
    }
    core::array::from_fn(|i| acc[i].rem_euclid(Q as i128) as i64)
}

pub fn inf_norm(v: &[Poly]) -> i64 {
    v.iter().flat_map(|p| p.iter()).map(|&c| mod_pm(c, Q).abs()).max().unwrap_or(0)
}

// ---------------------------------------------------------------------------------------------
// Algorithms 6-8: internal functions
// ---------------------------------------------------------------------------------------------

/// Algorithm 6. Returns (pk, sk) byte strings.
pub fn keygen_internal(p: &Params, xi: &[u8; 32]) -> (Vec<u8>, Vec<u8>) {
    let seed = h(&[xi, &integer_to_bytes(p.k as i64, 1), &integer_to_bytes(p.l as i64, 1)], 128);
    let (rho, rest) = seed.split_at(32);
    let (rho_p, key) = rest.split_at(64);
    let a_hat = expand_a(p, rho);
    let (s1, s2) = expand_s(p, rho_p);
    let s1_hat: Vec<Poly> = s1.iter().map(ntt).collect();
    let as1 = matrix_vector_ntt(&a_hat, &s1_hat);
    let mut t1 = Vec::new();
    let mut t0 = Vec::new();
    for i in 0..p.k {
        let w = ntt_inv(&as1[i]);
        for n in 0..256 {
            let raw = w[n] + s2[i][n];
            if raw >= Q {
                ev(|e| e.t_wrap_high += 1);
            }
            if raw < 0 {
                ev(|e| e.t_wrap_low += 1);
            }
        }
        let t: Poly = core::array::from_fn(|n| modq(w[n] + s2[i][n]));
        let mut a1 = ZERO;
        let mut a0 = ZERO;
        for n in 0..256 {
            let (r1, r0) = power2round(t[n]);
            if r1 == 1023 {
                ev(|e| e.t1_max += 1);
            }
            a1[n] = r1;
            a0[n] = r0;
        }
        t1.push(a1);
        t0.push(a0);
    }
    let pk = pk_encode(rho, &t1);
    let tr = h(&[&pk], 64);
    let sk = sk_encode(p, rho, key, &tr, &s1, &s2, &t0);
    (pk, sk)
}

/// Public key that FIPS 204 KeyGen would have produced for the (rho, s1, s2) held in `sk`
/// (ignores the t0 and tr stored there).
pub fn pk_from_sk(p: &Params, sk: &[u8]) -> Vec<u8> {
    let parts = sk_decode(p, sk);
    let a_hat = expand_a(p, &parts.rho);
    let s1_hat: Vec<Poly> = parts.s1.iter().map(ntt).collect();
    let as1 = matrix_vector_ntt(&a_hat, &s1_hat);
    let mut t1 = Vec::new();
    for i in 0..p.k {
        let w = ntt_inv(&as1[i]);
        let mut a1 = ZERO;
        for n in 0..256 {
            a1[n] = power2round(w[n] + parts.s2[i][n]).0;
        }
        t1.push(a1);
    }
    pk_encode(&parts.rho, &t1)
}

pub const SIGN_LOOP_CAP: u64 = 4096;

/// Algorithm 7. `None` when the loop cap is exceeded (inconclusive for the caller) or when kappa
/// would leave 16 bits.
pub fn sign_internal(p: &Params, sk: &[u8], m_prime: &[u8], rnd: &[u8; 32]) -> Option<Vec<u8>> {
    sign_internal_capped(p, sk, m_prime, rnd, SIGN_LOOP_CAP)
}

pub fn sign_internal_capped(
    p: &Params, sk: &[u8], m_prime: &[u8], rnd: &[u8; 32], cap: u64,
) -> Option<Vec<u8>> {
    let parts = sk_decode(p, sk);
    let s1_hat: Vec<Poly> = parts.s1.iter().map(ntt).collect();
    let s2_hat: Vec<Poly> = parts.s2.iter().map(ntt).collect();
    let t0_hat: Vec<Poly> = parts.t0.iter().map(ntt).collect();
    let a_hat = expand_a(p, &parts.rho);
    let mu = h(&[&parts.tr, m_prime], 64);
    let rho_pp = h(&[&parts.key, rnd, &mu], 64);
    let mut kappa: i64 = 0;
    let mut iters = 0u64;
    loop {
        iters += 1;
        if iters > cap || kappa + p.l as i64 > 65536 {
            ev(|e| e.sign_iterations = iters - 1);
            return None;
        }
        let y = expand_mask(p, &rho_pp, kappa);
        kappa += p.l as i64;
        let y_hat: Vec<Poly> = y.iter().map(ntt).collect();
        let w: Vec<Poly> = matrix_vector_ntt(&a_hat, &y_hat).iter().map(ntt_inv).collect();
        let w1: Vec<Poly> =
            w.iter().map(|wp| core::array::from_fn(|n| high_bits(p.gamma2, wp[n]))).collect();
        let c_tilde = h(&[&mu, &w1_encode(p, &w1)], p.lambda / 4);
        let c = sample_in_ball(&c_tilde, p.tau);
        let c_hat = ntt(&c);
        let cs1: Vec<Poly> = s1_hat.iter().map(|s| ntt_inv(&multiply_ntt(&c_hat, s))).collect();
        let cs2: Vec<Poly> = s2_hat.iter().map(|s| ntt_inv(&multiply_ntt(&c_hat, s))).collect();
        let z: Vec<Poly> =
            (0..p.l).map(|i| core::array::from_fn(|n| modq(y[i][n] + cs1[i][n]))).collect();
        let r: Vec<Poly> =
            (0..p.k).map(|i| core::array::from_fn(|n| modq(w[i][n] - cs2[i][n]))).collect();
        let r0: Vec<Poly> =
            r.iter().map(|rp| core::array::from_fn(|n| low_bits(p.gamma2, rp[n]))).collect();
        let zn = inf_norm(&z);
        let r0n = inf_norm(&r0);
        if zn >= p.gamma1 - p.beta || r0n >= p.gamma2 - p.beta {
            ev(|e| {
                if zn >= p.gamma1 - p.beta {
                    e.rej_z += 1;
                } else {
                    e.rej_r0 += 1;
                }
            });
            continue;
        }
        let ct0: Vec<Poly> = t0_hat.iter().map(|t| ntt_inv(&multiply_ntt(&c_hat, t))).collect();
        let hint: Vec<Poly> = (0..p.k)
            .map(|i| {
                core::array::from_fn(|n| {
                    i64::from(make_hint(p.gamma2, modq(-ct0[i][n]), modq(r[i][n] + ct0[i][n])))
                })
            })
            .collect();
        let ct0n = inf_norm(&ct0);
        let weight: i64 = hint.iter().flat_map(|hp| hp.iter()).sum();
        if ct0n == p.gamma2 && weight <= p.omega as i64 {
            let at_pos = ct0.iter().any(|pl| pl.iter().any(|&x| mod_pm(x, Q) == p.gamma2));
            ev(|e| if at_pos { e.lone_exact_ct0_pos += 1 } else { e.lone_exact_ct0_neg += 1 });
        }
        if ct0n < p.gamma2 && weight == p.omega as i64 + 1 {
            ev(|e| e.lone_exact_hint += 1);
        }
        if ct0n == p.gamma2 - 1 && weight <= p.omega as i64 {
            ev(|e| e.accept_ct0_gamma2_minus_1 += 1);
        }
        if ct0n < p.gamma2 && weight == p.omega as i64 {
            ev(|e| e.accept_hint_omega += 1);
        }
        if ct0n >= p.gamma2 || weight > p.omega as i64 {
            ev(|e| {
                if ct0n >= p.gamma2 {
                    e.rej_ct0 += 1;
                } else {
                    e.rej_hint += 1;
                }
            });
            continue;
        }
        ev(|e| {
            e.sign_iterations = iters;
            e.final_z_norm = zn;
            e.final_r0_norm = r0n;
            e.final_ct0_norm = ct0n;
            e.final_hint_weight = weight as u64;
        });
        let zc: Vec<Poly> =
            z.iter().map(|zp| core::array::from_fn(|n| mod_pm(zp[n], Q))).collect();
        return Some(sig_encode(p, &c_tilde, &zc, &hint));
    }
}

/// w'_approx of Algorithm 8 for arbitrary (rho, t1, c, z): A z - c t1 2^d (coefficient domain).
pub fn w_approx(p: &Params, rho: &[u8], t1: &[Poly], c: &Poly, z: &[Poly]) -> Vec<Poly> {
    let a_hat = expand_a(p, rho);
    let z_hat: Vec<Poly> = z.iter().map(ntt).collect();
    let az = matrix_vector_ntt(&a_hat, &z_hat);
    let c_hat = ntt(c);
    (0..p.k)
        .map(|i| {
            let t1d: Poly = core::array::from_fn(|n| modq(t1[i][n] * (1 << D)));
            let ct = multiply_ntt(&c_hat, &ntt(&t1d));
            ntt_inv(&sub_poly(&az[i], &ct))
        })
        .collect()
}

/// Algorithm 8
pub fn verify_internal(p: &Params, pk: &[u8], m_prime: &[u8], sigma: &[u8]) -> bool {
    if pk.len() != p.pk_len || sigma.len() != p.sig_len {
        return false;
    }
    let (rho, t1) = pk_decode(p, pk);
    let (c_tilde, z, hint) = sig_decode(p, sigma);
    let Some(hint) = hint else { return false };
    let tr = h(&[pk], 64);
    let mu = h(&[&tr, m_prime], 64);
    let c = sample_in_ball(&c_tilde, p.tau);
    let wa = w_approx(p, &rho, &t1, &c, &z);
    let w1: Vec<Poly> = (0..p.k)
        .map(|i| core::array::from_fn(|n| use_hint(p.gamma2, hint[i][n], wa[i][n])))
        .collect();
    let c_tilde_p = h(&[&mu, &w1_encode(p, &w1)], p.lambda / 4);
    inf_norm(&z) < p.gamma1 - p.beta && c_tilde == c_tilde_p
}

// ---------------------------------------------------------------------------------------------
// Algorithms 2-5: external functions
// ---------------------------------------------------------------------------------------------

#[derive(Debug, Clone, Copy, PartialEq, Eq, Hash)]
pub enum Mode {
    Pure,
    Sha256,
    Sha512,
    Shake128,
}

pub const MODES: [Mode; 4] = [Mode::Pure, Mode::Sha256, Mode::Sha512, Mode::Shake128];

impl Mode {
    pub fn name(self) -> &'static str {
        match self {
            Mode::Pure => "pure",
            Mode::Sha256 => "hash-sha256",
            Mode::Sha512 => "hash-sha512",
            Mode::Shake128 => "hash-shake128",
        }
    }
}

/// DER OIDs as printed in FIPS 204 Algorithm 4 (lines 10-22).
pub fn oid(mode: Mode) -> Vec<u8> {
    match mode {
        Mode::Pure => vec![],
        Mode::Sha256 => vec![0x06, 0x09, 0x60, 0x86, 0x48, 0x01, 0x65, 0x03, 0x04, 0x02, 0x01],
        Mode::Sha512 => vec![0x06, 0x09, 0x60, 0x86, 0x48, 0x01, 0x65, 0x03, 0x04, 0x02, 0x03],
        Mode::Shake128 => vec![0x06, 0x09, 0x60, 0x86, 0x48, 0x01, 0x65, 0x03, 0x04, 0x02, 0x0B],
    }
}

pub fn prehash(mode: Mode, m: &[u8]) -> Vec<u8> {
    match mode {
        Mode::Pure => m.to_vec(),
        Mode::Sha256 => Sha256::digest(m).to_vec(),
        Mode::Sha512 => Sha512::digest(m).to_vec(),
        Mode::Shake128 => {
            let mut hasher = Shake128::default();
            hasher.update(m);
            let mut out = vec![0u8; 32];
            hasher.finalize_xof().read(&mut out);
            out
        }
    }
}

/// M' of Algorithms 2/3 (pure) and 4/5 (pre-hash). `None` if |ctx| > 255.
pub fn format_message(mode: Mode, m: &[u8], ctx: &[u8]) -> Option<Vec<u8>> {
    if ctx.len() > 255 {
        return None;
    }
    let mut mp = Vec::new();
    mp.extend(integer_to_bytes(if mode == Mode::Pure { 0 } else { 1 }, 1));
    mp.extend(integer_to_bytes(ctx.len() as i64, 1));
    mp.extend_from_slice(ctx);
    if mode == Mode::Pure {
        mp.extend_from_slice(m);
    } else {
        mp.extend(oid(mode));
        mp.extend(prehash(mode, m));
    }
    Some(mp)
}

#[derive(Debug, Clone, PartialEq, Eq)]
pub enum SignOut {
    Sig(Vec<u8>),
    CtxTooLong,
    LoopCap,
}

/// Algorithms 2 and 4 with the 32 random bytes supplied.
pub fn sign(p: &Params, sk: &[u8], m: &[u8], ctx: &[u8], mode: Mode, rnd: &[u8; 32]) -> SignOut {
    let Some(mp) = format_message(mode, m, ctx) else { return SignOut::CtxTooLong };
    match sign_internal(p, sk, &mp, rnd) {
        Some(s) => SignOut::Sig(s),
        None => SignOut::LoopCap,
    }
}

/// Algorithms 3 and 5.
pub fn verify(p: &Params, pk: &[u8], m: &[u8], sigma: &[u8], ctx: &[u8], mode: Mode) -> bool {
    let Some(mp) = format_message(mode, m, ctx) else { return false };
    verify_internal(p, pk, &mp, sigma)
}

// ---------------------------------------------------------------------------------------------
// Self-validation helpers
// ---------------------------------------------------------------------------------------------

/// NTT-based product (reference's own NTT) used to cross-check the NTT against schoolbook.
pub fn ntt_mul(a: &Poly, b: &Poly) -> Poly { ntt_inv(&multiply_ntt(&ntt(a), &ntt(b))) }

pub fn hex(b: &[u8]) -> String {
    let mut s = String::with_capacity(2 * b.len());
    for x in b {
        s.push_str(&format!("{x:02x}"));
    }
    s
}

pub fn unhex(s: &str) -> Vec<u8> {
    let s = s.trim();
    assert!(s.len() % 2 == 0, "odd hex length");
    (0..s.len() / 2).map(|i| u8::from_str_radix(&s[2 * i..2 * i + 2], 16).expect("hex")).collect()
}
