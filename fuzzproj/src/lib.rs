// placeholder
