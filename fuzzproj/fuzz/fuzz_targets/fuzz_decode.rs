#![no_main]
//! C13: decoder hooks on raw bytes.
use fips204::verif_hooks as hk;
use libfuzzer_sys::fuzz_target;

fn fill<const N: usize>(data: &[u8]) -> [u8; N] {
    let mut out = [0u8; N];
    for (i, b) in out.iter_mut().enumerate() {
        *b = data[i % data.len()];
    }
    out
}

fuzz_target!(|data: &[u8]| {
    if data.len() < 4 {
        return;
    }
    let d = &data[1..];
    match data[0] % 8 {
        0 => { let _ = hk::sig_decode::<4, 4, 32, 2420>(1 << 17, 80, &fill(d)); }
        1 => { let _ = hk::sig_decode::<6, 5, 48, 3309>(1 << 19, 55, &fill(d)); }
        2 => { let _ = hk::sig_decode::<8, 7, 64, 4627>(1 << 19, 75, &fill(d)); }
        3 => { let y: [u8; 84] = fill(d); let _ = hk::hint_bit_unpack::<4>(80, &y); }
        4 => { let y: [u8; 61] = fill(d); let _ = hk::hint_bit_unpack::<6>(55, &y); }
        5 => { let y: [u8; 83] = fill(d); let _ = hk::hint_bit_unpack::<8>(75, &y); }
        6 => { let _ = hk::sk_decode::<4, 4, 2560>(2, &fill(d)); let _ = hk::sk_decode::<6, 5, 4032>(4, &fill(d)); }
        _ => { let _ = hk::pk_decode::<8, 2592>(&fill(d)); let v: [u8; 96] = fill(d); let _ = hk::bit_unpack(&v, 2, 2); let v: [u8; 128] = fill(d); let _ = hk::bit_unpack(&v, 4, 4); }
    }
});
