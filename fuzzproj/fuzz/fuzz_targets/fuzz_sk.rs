#![no_main]
//! C13: deserialise -> serialise -> derive -> sign with fuzzed private-key bytes whose s1/s2 fields
//! are mapped into range (so deserialisation accepts them) and raw bytes (so it mostly rejects).
use fips204::traits::{SerDes, Signer, Verifier};
use fips204::Ph;
use libfuzzer_sys::fuzz_target;
use rand_core::{CryptoRng, Error, RngCore};

struct Fixed([u8; 32]);
impl RngCore for Fixed {
    fn next_u32(&mut self) -> u32 { unimplemented!() }
    fn next_u64(&mut self) -> u64 { unimplemented!() }
    fn fill_bytes(&mut self, _: &mut [u8]) { unimplemented!() }
    fn try_fill_bytes(&mut self, out: &mut [u8]) -> Result<(), Error> {
        out.copy_from_slice(&self.0[..out.len()]);
        Ok(())
    }
}
impl CryptoRng for Fixed {}

/// rewrite every `bits`-wide field of sk[128..128+len] to raw % (2*eta+1)
fn map_in_range(sk: &mut [u8], start: usize, n_fields: usize, bits: usize, eta: u8) {
    for f in 0..n_fields {
        let base = start * 8 + f * bits;
        let mut raw = 0u8;
        for b in 0..bits {
            let pos = base + b;
            raw |= ((sk[pos / 8] >> (pos % 8)) & 1) << b;
        }
        let v = raw % (2 * eta + 1);
        for b in 0..bits {
            let pos = base + b;
            sk[pos / 8] = (sk[pos / 8] & !(1 << (pos % 8))) | (((v >> b) & 1) << (pos % 8));
        }
    }
}

macro_rules! go {
    ($m:ident, $data:expr, $sel:expr, $polys:expr, $bits:expr, $eta:expr, $sign:expr) => {{
        use fips204::$m as ps;
        let data = $data;
        let mut sk = [0u8; ps::SK_LEN];
        for (i, b) in sk.iter_mut().enumerate() {
            *b = data[i % data.len()];
        }
        if $sel & 0x80 == 0 {
            map_in_range(&mut sk, 128, $polys * 256, $bits, $eta);
        }
        if let Ok(sko) = ps::PrivateKey::try_from_bytes(sk) {
            let pk = sko.get_public_key();
            let _ = pk.clone().into_bytes();
            let _ = sko.clone().into_bytes();
            // hostile t0 can make ML-DSA-44 signing take thousands of iterations: sign only when asked
            if $sign {
                let mut rng = Fixed([data[0]; 32]);
                if let Ok(sig) = sko.try_sign_with_rng(&mut rng, &data[..data.len().min(40)], &[]) {
                    let _ = pk.verify(&data[..data.len().min(40)], &sig, &[]);
                }
                let _ = sko.try_hash_sign_with_rng(&mut rng, data, &data[..data.len().min(255)], &Ph::SHA512);
            }
        }
    }};
}

fuzz_target!(|data: &[u8]| {
    if data.len() < 8 {
        return;
    }
    let sel = data[0];
    match sel % 3 {
        0 => go!(ml_dsa_44, &data[1..], sel, 8, 3, 2, sel & 0x40 != 0 && data.len() < 64),
        1 => go!(ml_dsa_65, &data[1..], sel, 11, 4, 4, true),
        _ => go!(ml_dsa_87, &data[1..], sel, 15, 3, 2, true),
    }
});
