#![no_main]
//! C13: verify / hash_verify / try_from_bytes / into_bytes on fuzzed pk, sig, message, context.
use fips204::traits::{SerDes, Verifier};
use fips204::Ph;
use libfuzzer_sys::fuzz_target;

fn fill<const N: usize>(data: &[u8], off: &mut usize) -> [u8; N] {
    let mut out = [0u8; N];
    if data.is_empty() {
        return out;
    }
    for b in out.iter_mut() {
        *b = data[*off % data.len()];
        *off += 1;
    }
    out
}

macro_rules! go {
    ($m:ident, $data:expr, $sel:expr) => {{
        use fips204::$m as ps;
        let data = $data;
        let mut off = 0usize;
        let pk: [u8; ps::PK_LEN] = fill(data, &mut off);
        let mut sig: [u8; ps::SIG_LEN] = fill(data, &mut off);
        if $sel & 0x10 != 0 {
            // well-formed empty hint section so that the arithmetic is reached
            let n = ps::SIG_LEN;
            for b in sig[n - 100..].iter_mut() {
                *b = 0;
            }
        }
        let split = if data.len() > 8 { data[3] as usize % data.len() } else { 0 };
        let (msg, ctx) = data.split_at(split);
        if let Ok(pko) = ps::PublicKey::try_from_bytes(pk) {
            let _ = pko.verify(msg, &sig, ctx);
            let _ = pko.hash_verify(msg, &sig, ctx, &Ph::SHA256);
            let _ = pko.hash_verify(ctx, &sig, msg, &Ph::SHA512);
            let _ = pko.hash_verify(msg, &sig, &[], &Ph::SHAKE128);
            #[allow(deprecated)]
            let _ = ps::_internal_verify(&pko, msg, &sig, ctx);
            let _ = pko.into_bytes();
        }
    }};
}

fuzz_target!(|data: &[u8]| {
    if data.len() < 4 {
        return;
    }
    let sel = data[0];
    match sel % 3 {
        0 => go!(ml_dsa_44, &data[1..], sel),
        1 => go!(ml_dsa_65, &data[1..], sel),
        _ => go!(ml_dsa_87, &data[1..], sel),
    }
});
